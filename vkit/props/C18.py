"""
C18 - multi-document merges combine documents as the selected mode defines.

All pairs of document streams of lengths 1..n over a pool of tiny,
distinguishable documents (shared and private keys, a list document, a type
clash, an empty document) x the three multi-document modes x merge policies.
The right-hand stream is written to a real multi-document file and loaded by
the tool's own loader; the three mode drivers run on real Merger lists and
every resulting document is compared with a fold of the C05 reference merge.
"""
import itertools
import os
import tempfile

from yamlpath.commands import yaml_merge
from yamlpath.merger import Merger

from vkit import core, corpus, mergerun, refmerge

ID = "C18"
LEVEL = "model_checking"
RULE = ("all pairs of streams of lengths 1..n over a 6-document pool x "
        "{condense_all, merge_across, matrix_merge} x 2 policy vectors; the "
        "number, order and content of the output documents must equal the "
        "mode's fold of the reference merge, and the return state is "
        "non-zero exactly when a pairwise merge is impossible; non-trivial = "
        "either stream has >= 2 documents; distinct = distinct (stream "
        "shapes, mode, policy, outcome)")
ASSUMPTIONS = [
    "each pairwise step is judged by the C05 reference merge; streams that "
    "lead into a case it leaves open are skipped and counted",
]

POOL = [
    ("m", (("k", 1),)),
    ("m", (("k", 2), ("p", 1))),
    ("m", (("q", 3),)),
    ("l", (1,)),
    ("m", (("k", ("l", (1,))),)),
    None,                                  # an empty document
]
MODES = ("condense_all", "merge_across", "matrix_merge")
POLS = [dict(hashes="deep", arrays="all", aoh="all", sets="unique"),
        dict(hashes="right", arrays="unique", aoh="all", sets="unique")]
STREAMS = []
SCRATCH = None


def plan(tier):
    global STREAMS
    nmax = 2 if tier == "quick" else 3
    STREAMS = []
    for n in range(1, nmax + 1):
        STREAMS += list(itertools.product(range(len(POOL)), repeat=n))
    if tier == "quick":
        # a fixed selection of length-3 streams so that surplus documents on
        # either side occur in the quick tier too
        STREAMS += [(0, 1, 2), (2, 0, 1), (3, 0, 0), (0, 5, 1), (1, 4, 0),
                    # a left stream LONGER than the right one whose documents
                    # take whole nodes of the right documents (new keys, an
                    # empty document): what one left document received must
                    # not be what the next one is given
                    (2, 2, 2), (2, 5, 2), (5, 2, 2), (2, 4, 2)]
    bounds = {"pool": [render_doc(d) for d in POOL],
              "max_stream_length": nmax, "streams": len(STREAMS),
              "modes": list(MODES), "policy_vectors": len(POLS)}
    return [(i,) for i in range(len(STREAMS))], bounds


def render_doc(spec):
    return "null" if spec is None else corpus.render(spec)


def render_stream(idxs):
    return "".join("---\n%s\n" % render_doc(POOL[i]) for i in idxs)


def scratch():
    global SCRATCH
    if SCRATCH is None:
        base = "/dev/shm" if os.path.isdir("/dev/shm") else None
        SCRATCH = tempfile.mkdtemp(prefix="vkit-c18-", dir=base)
    return SCRATCH


def run_shard(shard):
    (li,) = shard
    st = core.Stats(ID)
    try:
        for ri in range(len(STREAMS)):
            for mode in MODES:
                for pol in POLS:
                    check(st, STREAMS[li], STREAMS[ri], mode, pol)
        if li == 0:
            typed_family(st)
        if li == 1:
            mergekey_family(st)
        if li == 2:
            stdin_family(st)
        if li == 3:
            mergeat_family(st)
        if 5 <= li < 5 + len(RULE_SETS):
            rules_family(st, RULE_SETS[li - 5])
        if li == 4:
            repeat_family(st)
    finally:
        cleanup()
    st.sample({"lhs_stream": render_stream(STREAMS[li]),
               "rhs_stream": render_stream(STREAMS[(li * 7) % len(STREAMS)]),
               "mode": MODES[li % 3]})
    return st


def cleanup():
    global SCRATCH
    if SCRATCH and os.path.isdir(SCRATCH):
        for name in os.listdir(SCRATCH):
            os.unlink(os.path.join(SCRATCH, name))
        os.rmdir(SCRATCH)
    SCRATCH = None


class Impossible(Exception):
    pass


def rmerge(l, r, pol):
    try:
        return refmerge.merge(l, r, pol)
    except refmerge.MergeError as ex:
        raise Impossible(str(ex))


def expected(lidx, ridx, mode, pol):
    """-> ('docs', [canon...]) | ('fail',) | ('unspecified', why)"""
    null = ("null", None)
    L = [null if POOL[i] is None else corpus.canon(_loaded(i)) for i in lidx]
    R = [null if POOL[i] is None else corpus.canon(_loaded(i)) for i in ridx]
    try:
        if mode == "condense_all":
            acc = L[0]
            for d in L[1:] + R:
                acc = rmerge(acc, d, pol)
            return ("docs", [acc])
        if mode == "merge_across":
            out = []
            for i in range(max(len(L), len(R))):
                if i < len(L) and i < len(R):
                    out.append(rmerge(L[i], R[i], pol))
                elif i < len(L):
                    out.append(L[i])
                else:
                    out.append(R[i])
            return ("docs", out)
        out = []
        for l in L:
            acc = l
            for r in R:
                acc = rmerge(acc, r, pol)
            out.append(acc)
        return ("docs", out)
    except Impossible:
        return ("fail",)
    except refmerge.Unspecified as ex:
        return ("unspecified", str(ex))


_CACHE = {}


def _loaded(i):
    if i not in _CACHE:
        _CACHE[i] = corpus.load(corpus.render(POOL[i]))
    return _CACHE[i]


def check(st, lidx, ridx, mode, pol):
    st.evaluations += 1
    case = {"lhs_stream": render_stream(lidx), "rhs_stream":
            render_stream(ridx), "mode": mode, "policies": pol,
            "lidx": list(lidx), "ridx": list(ridx)}
    exp = expected(lidx, ridx, mode, pol)
    if exp[0] == "unspecified":
        st.extra["unspecified"] += 1
        return
    cfg = mergerun.make_config(pol)
    cfg.args.multi_doc_mode = mode
    # left stream: Mergers over freshly loaded documents; right stream: a real
    # multi-document file read by the tool's own loader
    lpath = os.path.join(scratch(), "lhs.yaml")
    rpath = os.path.join(scratch(), "rhs.yaml")
    with open(lpath, "w", encoding="utf-8") as fh:
        fh.write(render_stream(lidx))
    with open(rpath, "w", encoding="utf-8") as fh:
        fh.write(render_stream(ridx))
    from yamlpath.common import Parsers
    editor = Parsers.get_yaml_editor()
    Merger.depwarn_printed = False
    try:
        lhs_docs, ok = yaml_merge.get_doc_mergers(
            corpus.LOG, editor, cfg, lpath)
        if not ok or len(lhs_docs) != len(lidx):
            st.fail("load|lhs", case, "%d documents" % len(lidx),
                    "%s, %d" % (ok, len(lhs_docs)))
            return
        with core.watchdog(10):
            state = yaml_merge.merge_docs(corpus.LOG, editor, cfg, lhs_docs,
                                          rpath)
    except core.Hang:
        st.outcomes["hang"] += 1
        st.fail("hang|%s" % mode, case, "termination",
                "no result within 10 s")
        return
    except Exception as ex:               # pylint: disable=broad-except
        from vkit import qrun
        st.outcomes["crash"] += 1
        st.fail("crash|%s|%s@%s" % (mode, type(ex).__name__, qrun.where(ex)),
                case, exp[0], repr(ex)[:200])
        return
    st.transitions += len(lidx) * len(ridx) if mode == "matrix_merge" else \
        max(len(lidx), len(ridx)) if mode == "merge_across" else \
        len(lidx) + len(ridx) - 1
    st.validated += 1
    st.states += 1
    if len(lidx) > 1 or len(ridx) > 1:
        st.sig(tuple(lidx), tuple(ridx), mode, pol["hashes"], exp[0])
    if exp[0] == "fail":
        st.outcomes["refused"] += 1
        if state == 0:
            st.fail("%s|no-failure-status" % mode, case,
                    "a non-zero return state", "0")
        return
    st.outcomes["merged"] += 1
    if state != 0:
        st.fail("%s|spurious-failure-status" % mode, case, "0", str(state))
        return
    got = [corpus.canon(m.data) for m in lhs_docs]
    want = exp[1]
    if len(got) != len(want):
        st.fail("%s|document-count" % mode, case, "%d documents" % len(want),
                "%d documents" % len(got))
        return
    for i, (g, w) in enumerate(zip(got, want)):
        if refmerge.unordered(g) != refmerge.unordered(w):
            st.fail("%s|document-content" % mode, case,
                    "document %d = %r" % (i, w), repr(g)[:300])
            return


def mergeat_family(st):
    """The modes with a merge point other than the root: every output
    document is the mode's fold of the library's own single pairwise merges
    (Merger.merge_with on freshly loaded documents, same configuration) -
    empty left documents included.  Right-hand documents beyond the left
    stream's end (merge_across) are only counted."""
    pool = (0, 2, 4, 5)
    streams = [(i,) for i in pool] + list(itertools.product(pool, repeat=2))
    pol = POLS[0]
    for mergeat in ("/top/sub", "/k", "/q"):
        cfg = mergerun.make_config(pol, mergeat=mergeat)
        for lidx in streams:
            for ridx in streams:
                for mode in MODES:
                    mergeat_case(st, cfg, mergeat, lidx, ridx, mode, pol)


def repeat_family(st):
    """One file named more than once among the sources (A B A, A B B, A A):
    every mention contributes the file's own documents again - the result is
    the mode's fold over freshly read documents."""
    pool = (0, 1, 2, 4)
    pol = POLS[0]
    cfg = mergerun.make_config(pol)
    from yamlpath.common import Parsers
    for a in pool:
        for b in pool:
            for order in ("ABA", "ABB", "AA", "ABAB"):
                for mode in MODES:
                    st.evaluations += 1
                    cfg.args.multi_doc_mode = mode
                    files = {"A": os.path.join(scratch(), "fa.yaml"),
                             "B": os.path.join(scratch(), "fb.yaml")}
                    idx = {"A": a, "B": b}
                    for k, path in files.items():
                        with open(path, "w", encoding="utf-8") as fh:
                            fh.write(render_stream((idx[k],)))
                    case = {"repeat": order, "lhs_stream": render_stream(
                        (a,)), "rhs_stream": render_stream((b,)),
                            "mode": mode, "policies": pol, "a": a, "b": b}
                    try:
                        acc = _fresh(idx[order[0]])
                        for k in order[1:]:
                            res, acc2 = mergerun.merge(acc, _fresh(idx[k]),
                                                       cfg)
                            if res != "ok":
                                raise Impossible(acc2)
                            acc = acc2
                        want = corpus.canon(acc)
                    except Impossible:
                        want = None
                    editor = Parsers.get_yaml_editor()
                    Merger.depwarn_printed = False
                    try:
                        with core.watchdog(10):
                            docs, _ = yaml_merge.get_doc_mergers(
                                corpus.LOG, editor, cfg, files[order[0]])
                            state = 0
                            for k in order[1:]:
                                state = state or yaml_merge.merge_docs(
                                    corpus.LOG, editor, cfg, docs, files[k])
                    except (Exception, core.Hang) as ex:  # pylint: disable=broad-except
                        st.fail("repeat|crash|%s|%s" % (mode, type(
                            ex).__name__), case, "a return state",
                                repr(ex)[:200])
                        continue
                    st.transitions += len(order) - 1
                    st.validated += 1
                    st.states += 1
                    st.sig("repeat", order, a, b, mode, want is None)
                    if want is None:
                        if state == 0:
                            st.fail("repeat|%s|no-failure-status" % mode,
                                    case, "a non-zero return state", "0")
                        continue
                    got = [corpus.canon(m.data) for m in docs]
                    if state != 0 or got != [want]:
                        st.fail("repeat|%s|document-content" % mode, case,
                                repr(want)[:300], "state %s: %r" % (
                                    state, got)[:300])


def _fresh(i):
    return None if POOL[i] is None else corpus.load(corpus.render(POOL[i]))


RULE_POOL = [
    ("m", (("k", ("l", (1,))),)),
    ("m", (("k", ("l", (1, 2))), ("p", 1))),
    ("m", (("k", ("l", (2,))), ("t", ("l", (1,))))),
    ("m", (("t", ("l", (1, 3))),)),
    None,
]
RULE_SETS = [{"rules": {"/k": "unique"}}, {"rules": {"/k": "left", "/t": "unique"}},
             {"rules": {"/t": "right"}}]


def rules_family(st, rs):
    """The modes under a configuration with per-path rules: every pairwise
    step of a run - the second merge of an equal right-hand document into
    the next left-hand document too - obeys the rules (judged by the fold of
    single pairwise merges, each under a configuration of its own)."""
    idxs = range(len(RULE_POOL))
    streams = [(i,) for i in idxs] + list(itertools.product(idxs, repeat=2))
    pol = POLS[0]
    for lidx in streams:
        for ridx in streams:
            for mode in MODES:
                mergeat_case(st, None, None, lidx, ridx, mode, pol,
                             ruleset=rs)


def mergeat_case(st, cfg, mergeat, lidx, ridx, mode, pol, ruleset=None):
    st.evaluations += 1
    pool = POOL if ruleset is None else RULE_POOL

    def _fresh(i):
        return None if pool[i] is None else corpus.load(corpus.render(pool[i]))

    def _stream(idxs):
        return "".join("---\n%s\n" % render_doc(pool[i]) for i in idxs)

    def mkcfg():
        return mergerun.make_config(pol, mergeat=mergeat, **(ruleset or {}))
    cfg = mkcfg()
    case = {"lhs_stream": _stream(lidx), "rhs_stream": _stream(ridx),
            "mode": mode, "policies": pol,
            "mergeat": mergeat, "lidx": list(lidx), "ridx": list(ridx)}
    if ruleset is not None:
        case["ruleset"] = ruleset
    fam = "mergeat" if ruleset is None else "rules"

    def step(acc, i):
        res, data = mergerun.merge(acc, _fresh(i), mkcfg())
        if res != "ok":
            raise Impossible(data)
        return data
    cfg.args.multi_doc_mode = mode
    try:
        if mode == "condense_all":
            acc = _fresh(lidx[0])
            for i in tuple(lidx[1:]) + tuple(ridx):
                acc = step(acc, i)
            want = [corpus.canon(acc)]
        elif mode == "merge_across":
            want = []
            for n, i in enumerate(lidx):
                want.append(corpus.canon(
                    step(_fresh(i), ridx[n]) if n < len(ridx) else _fresh(i)))
            want += [None] * max(0, len(ridx) - len(lidx))
        else:
            want = []
            for i in lidx:
                acc = _fresh(i)
                for j in ridx:
                    acc = step(acc, j)
                want.append(corpus.canon(acc))
    except Impossible:
        want = None
    lpath = os.path.join(scratch(), "lhs.yaml")
    rpath = os.path.join(scratch(), "rhs.yaml")
    with open(lpath, "w", encoding="utf-8") as fh:
        fh.write(_stream(lidx))
    with open(rpath, "w", encoding="utf-8") as fh:
        fh.write(_stream(ridx))
    from yamlpath.common import Parsers
    editor = Parsers.get_yaml_editor()
    Merger.depwarn_printed = False
    try:
        lhs_docs, ok = yaml_merge.get_doc_mergers(corpus.LOG, editor, cfg,
                                                  lpath)
        with core.watchdog(10):
            state = yaml_merge.merge_docs(corpus.LOG, editor, cfg, lhs_docs,
                                          rpath)
    except (Exception, core.Hang) as ex:  # pylint: disable=broad-except
        st.fail("%s|crash|%s|%s" % (fam, mode, type(ex).__name__), case,
                "a return state", repr(ex)[:200])
        return
    st.transitions += 1
    st.validated += 1
    st.states += 1
    st.sig(fam, repr(ruleset), mergeat, tuple(lidx), tuple(ridx), mode, want is None)
    if want is None:
        st.outcomes[fam + ":refused"] += 1
        if state == 0:
            st.fail("%s|%s|no-failure-status" % (fam, mode), case,
                    "a non-zero return state", "0")
        return
    st.outcomes[fam + ":merged"] += 1
    if state != 0:
        st.fail("%s|%s|spurious-failure-status" % (fam, mode), case, "0",
                str(state))
        return
    got = [corpus.canon(m.data) for m in lhs_docs]
    if len(got) != len(want):
        st.fail("%s|%s|document-count" % (fam, mode), case,
                "%d documents" % len(want), "%d documents" % len(got))
        return
    for i, (g, w) in enumerate(zip(got, want)):
        if w is not None and g != w:
            st.fail("%s|%s|document-content" % (fam, mode), case,
                    "document %d = %r" % (i, w), repr(g)[:300])
            return


TYPED_PAIRS = [
    ("a: 1\n", "d: 2020-01-02\n"),
    ("l: [1]\n", "l: [2020-01-02T03:04:05.678Z]\n"),
    ("d: 2001-12-14\nk: x\n", "d: 2020-01-02\nt: 2001-12-14T21:59:43.10-05:00\n"),
    ("a: &A 2020-01-02\nb: *A\n", "c: &C 2021-03-04\nd: *C\n"),
    ("f: 1.5\n", "f: 10.0\ng: -0.25\nh: 1.0e+3\n"),
    ("s: !!set {? x}\n", "s: !!set {? y}\nn: ~\nb: true\n"),
    ("u: {x: 4}\n", "d: &d {x: 1}\nu:\n  <<: *d\n  z: 3\n"),
]


def typed_family(st):
    """Streams of ONE document each: all three modes are then the same single
    pairwise merge, so they must write the same document - also for values
    the modes' own copying has to carry along (dates, timestamps to the
    microsecond, floats, anchored dates, sets)."""
    from yamlpath.common import Parsers
    from vkit import editrun
    for ltext, rtext in TYPED_PAIRS:
        for pol in POLS[:1]:
            outs = {}
            for mode in MODES:
                st.evaluations += 1
                st.transitions += 1
                st.validated += 1
                cfg = mergerun.make_config(pol)
                cfg.args.multi_doc_mode = mode
                lpath = os.path.join(scratch(), "tl.yaml")
                rpath = os.path.join(scratch(), "tr.yaml")
                with open(lpath, "w", encoding="utf-8") as fh:
                    fh.write(ltext)
                with open(rpath, "w", encoding="utf-8") as fh:
                    fh.write(rtext)
                editor = Parsers.get_yaml_editor()
                Merger.depwarn_printed = False
                try:
                    lhs_docs, ok = yaml_merge.get_doc_mergers(
                        corpus.LOG, editor, cfg, lpath)
                    with core.watchdog(10):
                        state = yaml_merge.merge_docs(
                            corpus.LOG, editor, cfg, lhs_docs, rpath)
                    outs[mode] = (state, [editrun.dump(m.data)
                                          for m in lhs_docs])
                except BaseException as ex:  # pylint: disable=broad-except
                    outs[mode] = ("crash", type(ex).__name__)
                st.states += 1
            case = {"lhs_stream": ltext, "rhs_stream": rtext, "mode": "all",
                    "policies": pol, "typed": True}
            st.sig("typed", ltext, rtext)
            if len(set(repr(v) for v in outs.values())) != 1 or \
                    outs[MODES[0]][0] != 0:
                st.fail("single-document-streams|modes-disagree", case,
                        repr(outs["merge_across"])[:300],
                        repr({m: outs[m] for m in MODES
                              if outs[m] != outs["merge_across"]})[:400])


def stdin_family(st):
    """The right-hand stream read from standard input is the stream read from
    a file: the same number of documents (also when the stream ENDS in an
    empty document), so every mode gives the same result either way."""
    import io
    import yamlpath.common.parsers as parsers_mod
    from yamlpath.common import Parsers
    from vkit import editrun
    lefts = [(0, 2), (0,), (2, 0, 1)]
    rights = [(1, 5), (5,), (1, 5, 5), (5, 1), (1, 2), (4, 1, 5)]
    for lidx in lefts:
        for ridx in rights:
            for mode in MODES:
                st.evaluations += 1
                st.transitions += 2
                st.validated += 1
                pol = POLS[0]
                rtext = render_stream(ridx)
                outs = {}
                for delivery in ("file", "stdin"):
                    cfg = mergerun.make_config(pol)
                    cfg.args.multi_doc_mode = mode
                    lpath = os.path.join(scratch(), "sl.yaml")
                    rpath = os.path.join(scratch(), "sr.yaml")
                    with open(lpath, "w", encoding="utf-8") as fh:
                        fh.write(render_stream(lidx))
                    with open(rpath, "w", encoding="utf-8") as fh:
                        fh.write(rtext)
                    editor = Parsers.get_yaml_editor()
                    Merger.depwarn_printed = False
                    saved = parsers_mod.stdin
                    parsers_mod.stdin = io.StringIO(rtext)
                    try:
                        lhs_docs, _ = yaml_merge.get_doc_mergers(
                            corpus.LOG, editor, cfg, lpath)
                        with core.watchdog(10):
                            state = yaml_merge.merge_docs(
                                corpus.LOG, editor, cfg, lhs_docs,
                                rpath if delivery == "file" else "-")
                        outs[delivery] = (state, [
                            corpus.canon(m.data) for m in lhs_docs]
                                          if state == 0 else None)
                    except BaseException as ex:  # pylint: disable=broad-except
                        outs[delivery] = ("crash", type(ex).__name__)
                    finally:
                        parsers_mod.stdin = saved
                st.states += 1
                st.sig("stdin-stream", lidx, ridx, mode)
                if outs["file"] != outs["stdin"]:
                    st.fail("%s|stdin-stream-differs" % mode,
                            {"lhs_stream": render_stream(lidx),
                             "rhs_stream": rtext, "mode": mode,
                             "policies": pol, "stdin_stream": True},
                            repr(outs["file"])[:300],
                            repr(outs["stdin"])[:300])
                else:
                    st.outcomes["merged" if outs["file"][0] == 0
                                else "refused"] += 1


_MK_R1 = ("defs: &d {x: 1, y: 2}\nuse:\n  <<: *d\n  z: 3\nu:\n  <<: *d\n"
          "  w: 5\n")
MERGEKEY_STREAMS = [
    # (left documents, right documents)
    (["u: {x: 4}\n"], [_MK_R1]),
    (["top: 1\n"], [_MK_R1, "defs: {x: 9}\n"]),
    (["a: 1\n", "u: {y: 7}\n"], [_MK_R1]),
    (["a: 1\n", "b: 2\n"], [_MK_R1, "use: {x: 8}\n"]),
    ([_MK_R1], ["u: {x: 4}\n"]),
]


def mergekey_family(st):
    """Right-hand documents whose hashes inherit through a YAML merge key:
    whatever copying a mode does, every output document is what single
    merges of freshly loaded documents give - the same data, and the
    inheriting hash still owns only its own keys."""
    from yamlpath.common import Parsers
    from vkit import editrun

    def load(text):
        return Parsers.get_yaml_editor().load(text)

    def shape(data):
        # own (not inherited) keys of every hash, by position
        out = []

        def walk(node, where):
            if corpus.is_map(node):
                own = [k for k, _ in node.non_merged_items()] if hasattr(
                    node, "non_merged_items") else list(node)
                out.append((where, tuple(own), len(getattr(
                    node, "merge", []) or [])))
                for k, v in node.items():
                    walk(v, where + (str(k),))
            elif corpus.is_list(node):
                for i, v in enumerate(node):
                    walk(v, where + (i,))
        walk(data, ())
        return sorted(out, key=repr)

    for ltexts, rtexts in MERGEKEY_STREAMS:
        for mode in MODES:
            st.evaluations += 1
            st.transitions += 1
            st.validated += 1
            pol = POLS[0]
            case = {"lhs_stream": "".join("---\n" + t for t in ltexts),
                    "rhs_stream": "".join("---\n" + t for t in rtexts),
                    "mode": mode, "policies": pol, "mergekeys": True}
            # the oracle: single merges, every document loaded afresh
            def fold(first, others):
                cfg = mergerun.make_config(pol)
                acc = Merger(corpus.LOG, load(first), cfg)
                for t in others:
                    acc.merge_with(load(t))
                return acc.data
            if mode == "condense_all":
                want = [fold(ltexts[0], ltexts[1:] + rtexts)]
            elif mode == "merge_across":
                want = []
                for i in range(max(len(ltexts), len(rtexts))):
                    if i < len(ltexts) and i < len(rtexts):
                        want.append(fold(ltexts[i], [rtexts[i]]))
                    else:
                        want.append(load((ltexts + rtexts)[
                            i if i < len(ltexts) else len(ltexts) + i]))
            else:
                want = [fold(t, rtexts) for t in ltexts]
            cfg = mergerun.make_config(pol)
            cfg.args.multi_doc_mode = mode
            lpath = os.path.join(scratch(), "ml.yaml")
            rpath = os.path.join(scratch(), "mr.yaml")
            with open(lpath, "w", encoding="utf-8") as fh:
                fh.write(case["lhs_stream"])
            with open(rpath, "w", encoding="utf-8") as fh:
                fh.write(case["rhs_stream"])
            editor = Parsers.get_yaml_editor()
            Merger.depwarn_printed = False
            try:
                lhs_docs, _ = yaml_merge.get_doc_mergers(
                    corpus.LOG, editor, cfg, lpath)
                with core.watchdog(10):
                    state = yaml_merge.merge_docs(
                        corpus.LOG, editor, cfg, lhs_docs, rpath)
                got = [m.data for m in lhs_docs]
            except BaseException as ex:  # pylint: disable=broad-except
                st.fail("merge-keys|%s|crash" % mode, case, "documents",
                        "%s: %s" % (type(ex).__name__, str(ex)[:100]))
                continue
            st.states += 1
            st.sig("mergekeys", len(ltexts), len(rtexts), mode)
            wplain = [corpus.canon(d) for d in want]
            gplain = [corpus.canon(d) for d in got]
            if state != 0 or gplain != wplain:
                st.fail("merge-keys|%s|document-content" % mode, case,
                        repr(wplain)[:300], "state %s: %r" % (
                            state, gplain)[:300])
                continue
            if [shape(d) for d in got] != [shape(d) for d in want]:
                st.fail("merge-keys|%s|inheritance-lost" % mode, case,
                        repr([shape(d) for d in want])[:300],
                        repr([shape(d) for d in got])[:300])
                continue
            st.outcomes["merged"] += 1


def replay(case):
    st = core.Stats(None)
    if case.get("stdin_stream"):
        try:
            stdin_family(st)
        finally:
            cleanup()
        for lst in st.fails.values():
            return lst[0]
        return None
    if case.get("mergekeys"):
        try:
            mergekey_family(st)
        finally:
            cleanup()
        for lst in st.fails.values():
            return lst[0]
        return None
    if case.get("repeat"):
        try:
            repeat_family(st)
        finally:
            cleanup()
        for lst in st.fails.values():
            for f in lst:
                if f["case"] == case:
                    return f
        return None
    if case.get("ruleset"):
        mergeat_case(st, None, None, tuple(case["lidx"]), tuple(case["ridx"]),
                     case["mode"], case["policies"], ruleset=case["ruleset"])
        for lst in st.fails.values():
            return lst[0]
        return None
    if case.get("mergeat"):
        try:
            mergeat_case(st, mergerun.make_config(
                case["policies"], mergeat=case["mergeat"]), case["mergeat"],
                         tuple(case["lidx"]), tuple(case["ridx"]),
                         case["mode"], case["policies"])
        finally:
            cleanup()
        for lst in st.fails.values():
            return lst[0]
        return None
    if case.get("typed"):
        try:
            typed_family(st)
        finally:
            cleanup()
        for lst in st.fails.values():
            for f in lst:
                if f["case"]["lhs_stream"] == case["lhs_stream"] and \
                        f["case"]["rhs_stream"] == case["rhs_stream"]:
                    return f
        return None
    try:
        check(st, tuple(case["lidx"]), tuple(case["ridx"]), case["mode"],
              case["policies"])
    finally:
        cleanup()
    for lst in st.fails.values():
        return lst[0]
    return None


def repro(case):
    return ("# printf %r > l.yaml; printf %r > r.yaml\n"
            "# yaml-merge -M %s -H %s -A %s l.yaml r.yaml\n" % (
                case["lhs_stream"], case["rhs_stream"], case["mode"],
                case["policies"]["hashes"], case["policies"]["arrays"]))
