"""
Reference path evaluator: the *documented* segment semantics (README
"Supported YAML Path Segments", docstrings, behaviour pinned by the tests),
computed over plain positions.  Shares no code with yamlpath.processor.

A context is Ctx(node, parent, ref, pos); pos is the tuple of keys/indexes from
the document root (None for virtual nodes).  ev() returns the list of result
contexts in document order.  Cases the documents do not decide raise
Unspecified; they are counted, never guessed.
"""
from vkit import refmatch
from vkit.corpus import is_list, is_map, is_scalar, is_set, anchor_of


class Unspecified(Exception):
    pass


class ExpectError(Exception):
    """The documented outcome is a YAML Path error."""


class Ctx:
    __slots__ = ("node", "parent", "ref", "pos", "up", "virtual")

    def __init__(self, node, parent, ref, pos, up=None, virtual=None):
        self.node = node
        self.parent = parent
        self.ref = ref
        self.pos = pos
        self.up = up              # the context of the parent node
        self.virtual = virtual    # 'name': the node is a key/index value

    def __repr__(self):
        return "Ctx(%r @%r)" % (self.node, self.pos)


class VList(list):
    """A virtual list (slice result): its items are contexts."""


def root_ctx(doc):
    return Ctx(doc, None, None, ())


def children(ctx):
    node = ctx.node
    if isinstance(node, VList):
        return list(node)
    if is_map(node):
        return [Ctx(v, node, k, ctx.pos + (k,), ctx) for k, v in node.items()]
    if is_list(node):
        return [Ctx(v, node, i, ctx.pos + (i,), ctx)
                for i, v in enumerate(node)]
    if is_set(node):
        return [Ctx(m, node, m, ctx.pos + (m,), ctx) for m in node]
    return []


def subtree(ctx):
    """pre-order: the context first, then every descendant."""
    out = [ctx]
    for c in children(ctx):
        out.extend(subtree(c))
    return out


def leaves(ctx):
    node = ctx.node
    if is_map(node) or is_list(node) or is_set(node):
        out = []
        for c in children(ctx):
            out.extend(leaves(c))
        return out
    return [ctx]


def as_int(text):
    try:
        return int(text)
    except (TypeError, ValueError):
        return None


def ev(segs, ctx, i=0, tl=True):
    if i == len(segs):
        return [ctx]
    out = []
    for c in step(segs, i, ctx, tl):
        out.extend(ev(segs, c, i + 1))
    return out


DETERMINISTIC = ("key", "idx", "slice", "anchor", "coll")


def all_branches_exist(segs, ctx, i=0):
    """Does the path exist along *every* branch it explores?  (An optional
    query creates the missing tail of a branch whose key / index segment
    matches nothing, so only then is it a pure read.)"""
    if i == len(segs):
        return True
    found = step(segs, i, ctx)
    if not found and segs[i][0] in DETERMINISTIC:
        return False
    return all(all_branches_exist(segs, c, i + 1) for c in found)


def match(op, term, value):
    if not is_scalar(value):
        raise Unspecified("comparison against a container")
    if value is None:
        low = term.lower()
        if op == "=":
            if low in ("null", "none", "~", ""):
                raise Unspecified("null against a null-like term")
            return False
        if op in ("^", "$", "%"):
            if term == "" or low in "none" or low in "null" or term == "~":
                raise Unspecified("text of null")
            return False
        raise Unspecified("ordering / regex against null")
    res = refmatch.match(op, term, value)
    if res is refmatch.UNSPECIFIED:
        raise Unspecified("comparison kind (%s %s %s)" % (
            type(value).__name__, op, term))
    return res


def step(segs, i, ctx, tl=True):
    seg = segs[i]
    kind = seg[0]
    node = ctx.node
    last = i == len(segs) - 1

    if isinstance(node, VList):
        # What follows a slice is documented for keys only (the key of every
        # selected element); whether an index, wildcard, search, anchor or
        # traversal addresses the virtual list or its elements is not.
        if kind != "key" or as_int(seg[1]) is not None:
            raise Unspecified("%s segment applied to a slice" % kind)

    if kind == "glob":
        from vkit import paths
        segs = tuple(segs)
        return step(segs[:i] + (paths.glob_as_search(seg),) + segs[i + 1:],
                    i, ctx, tl)

    if kind == "key":
        return _key(segs, i, ctx, tl)

    if kind == "idx":
        n = seg[1]
        if is_list(node):
            if -len(node) <= n < len(node):
                return [_addressed(children(ctx)[n], n)]
            return []
        if is_set(node):
            raise ExpectError("index into a set")
        return []

    if kind == "slice":
        return _slice(seg, ctx)

    if kind == "anchor":
        name = seg[1]
        if is_map(node):
            if getattr(node, "merge", None):
                raise Unspecified("anchor search in a map with merge keys")
            return [c for c in children(ctx)
                    if anchor_of(c.ref) == name or anchor_of(c.node) == name]
        if is_list(node) or is_set(node):
            return [c for c in children(ctx) if anchor_of(c.node) == name]
        return []

    if kind == "all":
        if is_set(node) and not last:
            raise Unspecified("* over a set with a following segment")
        return children(ctx)

    if kind == "trav":
        if last:
            return leaves(ctx)
        if segs[i + 1][0] == "trav":
            raise ExpectError("** followed by **")
        # every node of the subtree at which the next segment (without
        # pass-through) yields something, once each, in document order
        out = []
        for c in subtree(ctx):
            if is_set(c.node):
                # are set members "nodes of the tree" for a filtered
                # traversal?  README is silent; the engine does not visit them
                raise Unspecified("filtered ** over a subtree holding a set")
            if step(segs, i + 1, c, False):
                out.append(c)
        return out

    if kind == "search":
        return _search(seg, ctx, tl)

    if kind == "kw":
        from vkit import refkeywords
        return refkeywords.step(seg, ctx, tl)

    raise Unspecified("segment kind %s" % kind)


def _addressed(c, n):
    """An element addressed by a negative index is held under that (equally
    valid) reference: parent[ref] is node either way."""
    if n < 0:
        return Ctx(c.node, c.parent, n, c.pos, c.up)
    return c


def _key(segs, i, ctx, tl):
    text = segs[i][1]
    node = ctx.node
    if isinstance(node, VList):
        out = []
        for c in node:
            out.extend(_key(segs, i, c, tl))
        return out
    if is_map(node):
        for c in children(ctx):
            if isinstance(c.ref, str) and c.ref == text:
                return [c]
        n = as_int(text)
        if n is not None:
            for c in children(ctx):
                if isinstance(c.ref, int) and not isinstance(c.ref, bool) \
                        and c.ref == n:
                    return [c]
        for c in children(ctx):
            if not isinstance(c.ref, (str, int)) or isinstance(c.ref, bool):
                if str(c.ref) == text:
                    raise Unspecified("non str/int key spelled like the path")
        return []
    if is_list(node):
        n = as_int(text)
        if n is not None:
            if str(n) != text.strip():
                raise Unspecified("odd integer spelling")
            if -len(node) <= n < len(node):
                return [_addressed(children(ctx)[n], n)]
            return []
        if not tl:
            return []
        out = []
        for c in children(ctx):
            out.extend(_key(segs, i, c, tl))
        return out
    if is_set(node):
        for c in children(ctx):
            if isinstance(c.node, str) and c.node == text:
                return [c]
        return []
    return []


def _slice(seg, ctx):
    a, b = seg[1], seg[2]
    node = ctx.node
    if is_list(node) and not isinstance(node, VList):
        if not isinstance(a, int):
            raise ExpectError("non-integer array slice")
        n = len(node)
        kids = children(ctx)
        if a == b:
            # README: identical bounds are the same as array[start]
            if -n <= a < n:
                return [Ctx(VList([kids[a]]), None, None, None)]
            raise Unspecified("identical slice bounds out of range")
        # README: start inclusive, stop exclusive, "either or both can be
        # negative, causing the elements to be selected from the end of the
        # Array" - i.e. the positions a Python slice names; elements between
        # them in document order, each once (none when stop precedes start).
        return [Ctx(VList(kids[a:b]), None, None, None)]
    if is_map(node):
        if isinstance(a, int):
            a, b = str(a), str(b)
        out = []
        for c in children(ctx):
            if not isinstance(c.ref, str):
                raise Unspecified("hash slice over a non-string key")
            if a <= c.ref <= b:
                out.append(c)
        return out
    if is_set(node):
        if isinstance(a, int):
            a, b = str(a), str(b)
        out = []
        for c in children(ctx):
            if not isinstance(c.node, str):
                raise Unspecified("set slice over a non-string member")
            if a <= c.node <= b:
                out.append(c)
        return out
    if isinstance(node, VList):
        raise Unspecified("slice of a slice")
    return []


def _search(seg, ctx, tl):
    _, attr, op, term, inv = seg
    node = ctx.node

    def keep(matched):
        return bool(matched) != bool(inv)

    if is_list(node):
        if not tl:
            return []
        out = []
        for c in children(ctx):
            if attr == ".":
                if not is_scalar(c.node):
                    raise Unspecified(". search over a container element")
                matched = match(op, term, c.node)
            elif is_map(c.node) and attr in c.node \
                    and isinstance(attr, str):
                matched = match(op, term, c.node[attr])
            else:
                found = ev([("key", attr)], c)
                if len(found) > 1:
                    raise Unspecified("attribute path yields several nodes")
                matched = bool(found) and match(op, term, found[0].node)
            if keep(matched):
                out.append(c)
        return out
    if is_map(node):
        if attr == ".":
            return [c for c in children(ctx) if keep(match(op, term, c.ref))]
        for c in children(ctx):
            if isinstance(c.ref, str) and c.ref == attr:
                return [c] if keep(match(op, term, c.node)) else []
        if as_int(attr) is not None:
            raise Unspecified("numeric attribute name against a hash")
        # attribute absent: no descendant can match
        return [ctx] if keep(False) else []
    if is_set(node):
        if attr != ".":
            raise Unspecified("named attribute against a set")
        return [c for c in children(ctx) if keep(match(op, term, c.node))]
    if attr != ".":
        raise Unspecified("named attribute against a scalar")
    return [ctx] if keep(match(op, term, node)) else []


def flat_ids(ctxs):
    """Identity signature of a result sequence; virtual lists are flattened
    and marked."""
    out = []
    for c in ctxs:
        if c.virtual == "name":
            out.append(("name", str(c.node)))
        elif isinstance(c.node, VList):
            out.append(("v",) + tuple(id(x.node) for x in c.node))
        else:
            out.append(id(c.node))
    return out
