"""
Reference merge on plain data (canonical trees, see corpus.canon), written
from the option docstrings of the merge enums, the yaml-merge help text and the
property statement.  Shares no code with yamlpath.merger.

    merge(L, R, pol) -> merged tree | raises MergeError | raises Unspecified

pol: dict(hashes=deep|left|right, arrays=all|left|right|unique,
          aoh=all|deep|left|right|unique, sets=left|right|unique,
          rules={path tuple: policy}, keys={path tuple: identity key})
Paths in rules/keys are tuples of keys from the right-hand document's root.
"""


class MergeError(Exception):
    """The documented outcome is a merge error."""


class Unspecified(Exception):
    pass


def kind(t):
    return t[0] if t[0] in ("m", "l", "s") else "v"


def is_aoh(t):
    return t[0] == "l" and len(t[1]) > 0 and t[1][0][0] == "m"


def keyname(kc):
    """Python value of a canonical key."""
    return kc[1] if kc[0] in ("str", "int", "bool", "float", "null") else kc


def policy(pol, which, path):
    rules = pol.get("rules") or {}
    if path in rules and rules[path] in MODES[which]:
        return rules[path]
    # (a rule naming a mode of another kind of node than the one being merged
    # - "deep" for what turns out a plain Array - does not apply)
    return pol[which]


MODES = {"hashes": ("deep", "left", "right"),
         "arrays": ("all", "left", "right", "unique"),
         "aoh": ("all", "deep", "left", "right", "unique"),
         "sets": ("left", "right", "unique")}


def merge(L, R, pol):
    """Root insertion table by (kind of L, kind of R)."""
    if R == ("null", None):
        return L
    if L == ("null", None):
        return R
    kl, kr = kind(L), kind(R)
    if kr == "m":
        if kl == "m":
            mode = policy(pol, "hashes", ())
            if mode == "left":
                return L
            if mode == "right":
                return R
            return merge_maps(L, R, pol, ())
        if kl == "l":
            return merge_lists(L, ("l", (R,)), pol, ())
        if kl == "s":
            raise MergeError("hash into set")
        raise MergeError("hash into scalar")
    if kr == "l":
        if kl == "l":
            return merge_lists(L, R, pol, ())
        if kl == "s":
            if policy(pol, "sets", ()) != "unique":
                raise Unspecified("array into set under a non-default policy")
            members = []
            for e in R[1]:
                if kind(e) != "v":
                    raise Unspecified("container member into a set")
                members.append(e)
            return merge_sets(L, ("s", tuple(members)), pol, ())
        if kl == "m":
            raise MergeError("array into hash")
        raise MergeError("array into scalar")
    if kr == "s":
        if kl == "l":
            if policy(pol, "arrays", ()) not in ("all", "unique"):
                raise Unspecified("set into array under left/right")
            return merge_lists(L, ("l", tuple(R[1])), pol, ())
        if kl == "m":
            asmap = ("m", tuple((m, ("null", None)) for m in R[1]))
            return merge_maps(L, asmap, pol, ())
        if kl == "s":
            return merge_sets(L, R, pol, ())
        raise MergeError("set into scalar")
    # R is a scalar
    if kl == "l":
        return ("l", L[1] + (R,))
    if kl == "s":
        if policy(pol, "sets", ()) != "unique":
            raise Unspecified("scalar into set under a non-default policy")
        return merge_sets(L, ("s", (R,)), pol, ())
    if kl == "m":
        raise MergeError("scalar into hash")
    return R


def merge_maps(L, R, pol, path):
    if kind(L) != "m":
        raise MergeError("hash into non-hash")
    litems = list(L[1])
    index = {keyname(k): i for i, (k, _) in enumerate(litems)}
    appended = []
    for kc, v in R[1]:
        name = keyname(kc)
        sub = path + (name,)
        if name in index:
            i = index[name]
            old = litems[i][1]
            litems[i] = (litems[i][0], merge_value(old, v, pol, sub))
        else:
            appended.append((kc, v))
    return ("m", tuple(litems) + tuple(appended))


def merge_value(old, new, pol, path):
    """The value under a key present on both sides."""
    kn, ko = kind(new), kind(old)
    if kn == "m":
        mode = policy(pol, "hashes", path)
        if mode == "left":
            return old
        if mode == "right":
            return new
        if ko != "m":
            raise MergeError("hash into non-hash")
        return merge_maps(old, new, pol, path)
    if kn == "l":
        which = "aoh" if is_aoh(new) else "arrays"
        mode = policy(pol, which, path)
        if mode == "left":
            return old
        if mode == "right":
            return new
        if ko != "l":
            raise MergeError("array into non-array")
        return merge_lists(old, new, pol, path)
    if kn == "s":
        mode = policy(pol, "sets", path)
        if mode == "left":
            return old
        if mode == "right":
            return new
        if ko != "s":
            raise MergeError("set into non-set")
        return merge_sets(old, new, pol, path)
    # right-hand scalars override - unless a per-path rule says left (the
    # test-suite pins that [rules] entries also apply to scalars)
    rule = (pol.get("rules") or {}).get(path)
    if rule == "left":
        return old
    if new == ("null", None):
        raise Unspecified("null over an existing value")
    if ko != "v":
        raise Unspecified("scalar over a container under a key")
    return new


def merge_lists(L, R, pol, path):
    if kind(L) != "l":
        raise MergeError("array into non-array")
    if len(R[1]) == 0:
        mode = policy(pol, "arrays", path)
        if mode == "right":
            return R
        return L
    if is_aoh(R):
        return merge_aoh(L, R, pol, path)
    mode = policy(pol, "arrays", path)
    if mode == "left":
        return L
    if mode == "right":
        return R
    if mode == "all":
        return ("l", L[1] + R[1])
    # unique
    out = list(L[1])
    for e in R[1]:
        if e in L[1]:
            continue
        if e in out:
            continue               # (unique: a repeat is added once)
        out.append(e)
    return ("l", tuple(out))


def merge_aoh(L, R, pol, path):
    mode = policy(pol, "aoh", path)
    if mode == "left":
        return L
    if mode == "right":
        return R
    if mode == "all":
        return ("l", L[1] + R[1])
    if mode == "unique":
        out = list(L[1])
        for e in R[1]:
            if e in L[1]:
                continue
            if e in out:
                continue
            out.append(e)
        return ("l", tuple(out))
    # deep: by identity key
    keys = pol.get("keys") or {}
    first = R[1][0]
    if path in keys:
        idkey = keys[path]
    elif len(first[1]) > 0:
        idkey = keyname(first[1][0][0])
    else:
        raise Unspecified("identity key of an empty record")
    out = list(L[1])
    for ei, e in enumerate(R[1]):
        if e[0] != "m":
            raise Unspecified("non-hash member of an Array-of-Hashes")
        rec = {keyname(k): v for k, v in e[1]}
        if idkey not in rec:
            raise MergeError("record without the identity key")
        target = None
        for i, l in enumerate(out):
            if l[0] != "m":
                continue
            lrec = {keyname(k): v for k, v in l[1]}
            if idkey in lrec and lrec[idkey] == rec[idkey]:
                target = i
                break
            if idkey in lrec and lrec[idkey][0] != rec[idkey][0] and \
                    lrec[idkey][1:] == rec[idkey][1:]:
                # 1 / true / 1.0: whether identities of different types that
                # Python calls equal denote the same record is not stated
                raise Unspecified("identity values equal across types")
        if target is None:
            out.append(e)
        else:
            out[target] = merge_maps(out[target], e, pol, path + (ei,))
    return ("l", tuple(out))


def merge_sets(L, R, pol, path):
    mode = policy(pol, "sets", path)
    if mode == "left":
        return L
    if mode == "right":
        return R
    out = list(L[1])
    for m in R[1]:
        if m not in out:
            out.append(m)
    return ("s", tuple(sorted(out, key=repr)))


# ------------------------------------------------------------- comparison
def unordered(t):
    """Order-free form of maps (and sets); lists keep their order."""
    if t[0] == "m":
        return ("m", frozenset((k, unordered(v)) for k, v in t[1]))
    if t[0] == "l":
        return ("l", tuple(unordered(v) for v in t[1]))
    if t[0] == "s":
        return ("s", frozenset(t[1]))
    if t[0] == "&":
        return unordered(t[2])
    return t


def order_violation(L, R, got):
    """Left keys keep their relative order, right-only keys keep theirs
    (checked for every map that exists in L / R and in the result)."""
    if got[0] != "m":
        return None
    gkeys = [keyname(k) for k, _ in got[1]]
    if L is not None and L[0] == "m":
        lkeys = [keyname(k) for k, _ in L[1]]
        seq = [k for k in gkeys if k in lkeys]
        if seq != [k for k in lkeys if k in gkeys]:
            return "left keys reordered: %r -> %r" % (lkeys, gkeys)
        if R is not None and R[0] == "m":
            ronly = [keyname(k) for k, _ in R[1] if keyname(k) not in lkeys]
            seq = [k for k in gkeys if k in ronly]
            if seq != ronly and set(seq) == set(ronly):
                return "right-only keys reordered: %r -> %r" % (ronly, gkeys)
    return None
