"""
Definitional oracle for the search keywords (C13): max / min / unique /
distinct / has_child / parent / name, written from the property statement,
the README list of keywords and the error messages the keywords document for
misuse.  Results are contexts (positions), in document order.
"""
from vkit.corpus import is_list, is_map, is_scalar, is_set
from vkit import refquery as rq


def step(seg, ctx, tl=True):
    _, name, params, inv = seg
    fn = {"has_child": has_child, "max": extreme, "min": extreme,
          "unique": grouping, "distinct": grouping, "parent": parent,
          "name": name_of}.get(name)
    if fn is None:
        raise rq.Unspecified("keyword %s" % name)
    if isinstance(ctx.node, rq.VList):
        raise rq.Unspecified("keyword over a virtual list")
    return fn(name, params, inv, ctx)


def is_aoh(node):
    return is_list(node) and len(node) > 0 and all(is_map(e) for e in node)


def has_child(name, params, inv, ctx):
    if len(params) != 1:
        raise rq.ExpectError("has_child takes exactly one parameter")
    key = params[0]
    if key.startswith("&"):
        raise rq.Unspecified("has_child(&anchor)")
    node = ctx.node
    if is_map(node):
        return [ctx] if ((key in node) != bool(inv)) else []
    if is_aoh(node):
        return [c for c in rq.children(ctx) if (key in c.node) != bool(inv)]
    if is_scalar(node) and node is not None:
        raise rq.ExpectError("scalars have no children")
    raise rq.Unspecified("has_child over %s" % type(node).__name__)


def kind_of(v):
    if isinstance(v, bool):
        return "bool"
    if isinstance(v, (int, float)):
        return "num"
    if isinstance(v, str):
        return "str"
    return "other"


def comparable(values):
    kinds = {kind_of(v) for v in values}
    if len(kinds) > 1 or kinds & {"bool", "other"}:
        raise rq.Unspecified("values of mixed / unordered kinds")
    if kinds == {"str"}:
        # strings that spell numbers compare as numbers or text?  undecided
        for v in values:
            try:
                float(v)
                raise rq.Unspecified("numeric-looking strings")
            except ValueError:
                pass


def members_with_values(params, ctx, kw):
    """-> [(member ctx, value or ABSENT)]"""
    node = ctx.node
    attr = params[0] if params else None
    if is_aoh(node) or (is_list(node) and len(node) > 0 and all(
            is_map(e) or e is None for e in node)
                        and any(is_map(e) for e in node)):
        if attr is None:
            raise rq.ExpectError("%s over an Array-of-Hashes needs a name"
                                 % kw)
        out = []
        for c in rq.children(ctx):
            if is_map(c.node) and attr in c.node:
                out.append((c, c.node[attr]))
            else:
                out.append((c, ABSENT))
        return out
    if is_map(node):
        if attr is None:
            raise rq.ExpectError("%s over a hash needs a name" % kw)
        out = []
        for c in rq.children(ctx):
            if not is_map(c.node):
                raise rq.Unspecified("hash child that is not a hash")
            if attr in c.node:
                out.append((c, c.node[attr]))
            else:
                out.append((c, ABSENT))
        return out
    if is_list(node):
        if len(node) == 0 or all(e is None for e in node):
            raise rq.Unspecified("empty / all-null list")
        if attr is not None:
            raise rq.ExpectError("%s over a plain list takes no name" % kw)
        out = []
        for c in rq.children(ctx):
            if not is_scalar(c.node):
                raise rq.Unspecified("list member that is a container")
            out.append((c, c.node))
        return out
    raise rq.Unspecified("%s over %s" % (kw, type(node).__name__))


ABSENT = object()


def extreme(name, params, inv, ctx):
    if len(params) > 1:
        raise rq.ExpectError("too many parameters")
    if is_scalar(ctx.node):
        if inv:
            raise rq.Unspecified("inverted %s of a scalar" % name)
        return [ctx]
    members = members_with_values(params, ctx, name)
    vals = [v for _, v in members if v is not ABSENT and v is not None]
    for v in vals:
        if not is_scalar(v):
            raise rq.Unspecified("attribute that is a container")
    if not vals:
        raise rq.Unspecified("no comparable value at all")
    comparable(vals)
    best = max(vals) if name == "max" else min(vals)
    winners = [c for c, v in members
               if v is not ABSENT and v is not None and v == best]
    if inv:
        win = {id(c) for c in winners}
        return [c for c, _ in members if id(c) not in win]
    return winners


def grouping(name, params, inv, ctx):
    if len(params) > 1:
        raise rq.ExpectError("too many parameters")
    if name == "distinct" and inv:
        raise rq.ExpectError("distinct does not invert")
    if is_scalar(ctx.node):
        if inv:
            raise rq.Unspecified("inverted unique of a scalar")
        return [ctx]
    members = members_with_values(params, ctx, name)
    present = [(c, v) for c, v in members if v is not ABSENT]
    vals = [v for _, v in present]
    for v in vals:
        if not is_scalar(v):
            raise rq.Unspecified("attribute that is a container")
    nonnull = [v for v in vals if v is not None]
    if nonnull:
        kinds = {kind_of(v) for v in nonnull}
        if len(kinds) > 1 or "other" in kinds:
            raise rq.Unspecified("values of mixed kinds")
        if kinds == {"num"} and len({type(v) is float for v in nonnull}) > 1:
            raise rq.Unspecified("ints mixed with floats")
    if any(v is None for v in vals) and params:
        pass
    groups = []
    for c, v in present:
        for g in groups:
            if (g[0] is None) == (v is None) and g[0] == v:
                g[1].append(c)
                break
        else:
            groups.append((v, [c]))
    if name == "distinct":
        firsts = {id(g[1][0]) for g in groups}
        return [c for c, _ in present if id(c) in firsts]
    once = {id(g[1][0]) for g in groups if len(g[1]) == 1}
    if inv:
        return [c for c, _ in present if id(c) not in once]
    return [c for c, _ in present if id(c) in once]


def parent(name, params, inv, ctx):
    if len(params) > 1:
        raise rq.ExpectError("too many parameters")
    if inv:
        raise rq.ExpectError("parent does not invert")
    steps = 1
    if params:
        try:
            steps = int(params[0])
        except ValueError:
            raise rq.ExpectError("non-integer steps")
        if str(steps) != params[0].strip():
            raise rq.Unspecified("odd integer spelling")
    if ctx.pos is None:
        raise rq.Unspecified("parent of a virtual node")
    if steps > len(ctx.pos):
        raise rq.ExpectError("above the document root")
    if steps < 0:
        raise rq.Unspecified("negative steps")
    cur = ctx
    for _ in range(steps):
        cur = cur.up
        if cur is None:
            raise rq.Unspecified("lost ancestry")
    return [cur]


def name_of(name, params, inv, ctx):
    if len(params) > 1:
        raise rq.ExpectError("too many parameters")
    if params:
        raise rq.Unspecified("name() with a parameter")
    if inv:
        raise rq.ExpectError("name does not invert")
    if ctx.pos is None or len(ctx.pos) == 0:
        raise rq.Unspecified("name of the root / a virtual node")
    return [rq.Ctx(ctx.ref, ctx.parent, ctx.ref, None, ctx.up, "name")]
