"""
./check <ID> [--tier quick|thorough] [--replay FILE]

exit 0  the property held on everything explored (known findings are listed)
exit 1  + "VIOLATION property=<ID> replay=<path>" for every violation class
exit 2  harness error (never reported as a violation)
"""
import argparse
import importlib
import json
import os
import subprocess
import sys

from vkit import core


def replay_file(args, mod, findings):
    with open(args.replay, encoding="utf-8") as fh:
        doc = json.load(fh)
    if doc.get("needs_history") and args.with_history \
            and hasattr(mod, "plan"):
        # the case alone holds in a fresh process (the reporting run
        # found that out): replay it after the process history it was
        # observed with - and with nothing else done before
        fail = core.replay_history(mod, doc)
    else:
        fail = mod.replay(doc["case"])
    if fail is not None and doc.get("needs_history"):
        print("replay: reproduced after the recorded process history "
              "(%d shards)" % len(doc["history"]))
    if fail is None:
        print("replay: property %s holds on this case" % mod.ID)
        return 0
    who = core.attribute(fail, findings)
    if who:
        print("KNOWN-FINDING: property=%s %s (replayed case)"
              % (mod.ID, who))
        return 0
    print("replay: expected=%r observed=%r" % (fail.get("expected"),
                                               fail.get("observed")))
    print("VIOLATION property=%s replay=%s" % (mod.ID, args.replay))
    return 1


def main():
    ap = argparse.ArgumentParser()
    ap.add_argument("prop")
    ap.add_argument("--tier", default=None)
    ap.add_argument("--replay", default=None)
    ap.add_argument("--no-confirm", action="store_true")
    ap.add_argument("--no-history", dest="with_history", action="store_false",
                    help="replay the case alone, without the process history "
                         "recorded with it")
    args = ap.parse_args()
    tier = os.environ.get("VERIF_TIER") or args.tier or "quick"
    if tier not in ("quick", "thorough"):
        tier = "quick"
    try:
        seed = int(os.environ.get("VERIF_SEED", "0"))
    except ValueError:
        seed = 0

    import yamlpath
    impl = os.path.realpath(os.path.dirname(yamlpath.__file__))
    want = os.path.realpath(core.REPO)
    if not impl.startswith(want + os.sep):
        core.eprint("harness error: yamlpath imported from %s, not under %s"
                    % (impl, want))
        return 2

    mod = importlib.import_module("vkit.props." + args.prop)
    findings = core.load_findings(mod.ID)

    if args.replay:
        try:
            return replay_file(args, mod, findings)
        except Exception:                  # pylint: disable=broad-except
            import traceback
            core.eprint("harness error while replaying %s:\n%s" % (
                args.replay, traceback.format_exc()))
            return 2
    t0 = core.now()
    import glob
    for old in glob.glob(os.path.join(core.VERIF, "replays",
                                      mod.ID + "-*.json")):
        try:
            os.unlink(old)
        except OSError:
            pass
    errors = []
    try:
        if hasattr(mod, "explore"):
            stats, bounds = mod.explore(tier, seed)
        else:
            shards, bounds = mod.plan(tier)
            stats, errors = core.explore(mod, shards, seed)
    except core.HarnessError as ex:
        core.eprint("harness error:\n%s" % ex)
        return 2
    if errors:
        for idx, err in errors[:3]:
            core.eprint("harness error in shard %d:\n%s" % (idx, err))
        return 2

    # every failing case was attributed (or not) when it was recorded
    known_counts = dict(stats.known)
    violations = []            # one (smallest) representative per class
    viol_count = sum(stats.fail_counts.values())
    for cls, lst in sorted(stats.fails.items()):
        lst.sort(key=lambda f: len(json.dumps(f["case"], default=repr)))
        violations.append(lst[0])

    # a violation must reproduce in a fresh process before it is reported
    reported = []
    nondeterministic = []
    needs_history = []
    for f in violations[:core.MAX_REPLAY_CLASSES]:
        path = core.write_replay(mod, f, tier)
        if args.no_confirm or os.environ.get("VERIF_NO_CONFIRM"):
            reported.append(path)
            continue
        env = dict(os.environ)
        rc = subprocess.run(
            [sys.executable, "-B", "-m", "vkit.run", mod.ID, "--replay", path,
             "--no-history"],
            env=env, stdout=subprocess.PIPE, stderr=subprocess.PIPE,
            stdin=subprocess.DEVNULL, check=False, cwd=core.VERIF)
        if rc.returncode == 1 and b"VIOLATION property=" in rc.stdout:
            reported.append(path)
        elif rc.returncode == 0 and f.get("history"):
            with open(path, encoding="utf-8") as fh:
                rdoc = json.load(fh)
            rdoc["needs_history"] = True
            with open(path, "w", encoding="utf-8") as fh:
                json.dump(rdoc, fh, indent=1, default=repr)
                fh.write("\n")
            needs_history.append(path)
        else:
            nondeterministic.append((path, rc.returncode,
                                     rc.stdout.decode()[-500:],
                                     rc.stderr.decode()[-500:]))
    # cases which hold when replayed alone: the failure may need the process
    # history of the worker which saw it (a cache, a class attribute).  Up to
    # three of them are replayed with that history in a fresh process; one
    # which still does not reproduce is a harness error.
    needs_history.sort(key=lambda p: len(json.load(open(p))["history"]))
    for path in needs_history[:3]:
        rc = subprocess.run(
            [sys.executable, "-B", "-m", "vkit.run", mod.ID, "--replay", path],
            env=dict(os.environ), stdout=subprocess.PIPE,
            stderr=subprocess.PIPE, stdin=subprocess.DEVNULL, check=False,
            cwd=core.VERIF)
        if rc.returncode == 1 and b"VIOLATION property=" in rc.stdout:
            reported.append(path)
        else:
            nondeterministic.append((path, rc.returncode,
                                     rc.stdout.decode()[-500:],
                                     rc.stderr.decode()[-500:]))
    for path in needs_history[3:]:
        try:
            os.unlink(path)        # not individually confirmed: not reported
        except OSError:
            pass

    exhaustive = stats.capped is None
    wall = core.now() - t0
    core.write_evidence(mod, tier, seed, stats, bounds, wall, viol_count,
                        known_counts, exhaustive,
                        notes=getattr(mod, "NOTES", None))

    for ent in findings:
        if ent.get("status") == "known":
            print("KNOWN-FINDING: property=%s %s: %s [%d case(s) "
                  "attributed in this run]" % (
                      mod.ID, ent["id"], ent["what"],
                      known_counts.get(ent["id"], 0)))
    print("%s %s: evaluations=%d states=%d transitions=%d distinct=%d "
          "outcomes=%d failing_classes=%d wall=%.1fs exhaustive=%s" % (
              mod.ID, tier, stats.evaluations, stats.states,
              stats.transitions, len(stats.sigs), len(stats.outcomes),
              len(stats.fail_counts), wall, exhaustive))
    if nondeterministic:
        for path, rc, out, err in nondeterministic:
            core.eprint("harness error: %s did not reproduce in a fresh "
                        "process (rc=%s)\n%s\n%s" % (path, rc, out, err))
        return 2
    if reported:
        for cls, n in sorted(stats.fail_counts.items()):
            print("  class %-60s %d" % (cls, n))
        for path in reported:
            print("VIOLATION property=%s replay=%s" % (mod.ID, path))
        return 1
    return 0


if __name__ == "__main__":
    sys.exit(main())
