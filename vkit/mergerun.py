"""
Driving the real merge engine.
"""
import copy
from types import SimpleNamespace

from yamlpath.merger import Merger, MergerConfig
from yamlpath.merger.exceptions import MergeException
from yamlpath.exceptions import YAMLPathException

from vkit import corpus, qrun


def make_config(pol, anchors=None, mergeat=None, rules=None, keys=None):
    args = SimpleNamespace(
        hashes=pol.get("hashes"), arrays=pol.get("arrays"),
        aoh=pol.get("aoh"), sets=pol.get("sets"))
    if anchors:
        args.anchors = anchors
    if mergeat:
        args.mergeat = mergeat
    kwargs = {}
    if rules:
        kwargs["rules"] = rules
    if keys:
        kwargs["keys"] = keys
    return MergerConfig(corpus.LOG, args, **kwargs)


def merge(lhs, rhs, config):
    """-> ('ok', data) | ('merge-error', msg) | ('ype', msg) | ('crash', w)"""
    Merger.depwarn_printed = False
    try:
        merger = Merger(corpus.LOG, lhs, config)
        merger.merge_with(rhs)
        return "ok", merger.data
    except MergeException as ex:
        return "merge-error", str(ex)[:100]
    except YAMLPathException as ex:
        return "ype", "%s: %s" % (type(ex).__name__, str(ex)[:80])
    except Exception as ex:               # pylint: disable=broad-except
        return "crash", "%s@%s" % (type(ex).__name__, qrun.where(ex))


def fresh(doc):
    return copy.deepcopy(doc)
