"""
E5 - fault enumeration for the save sequence of the file-writing tools.

Every I/O call the command module issues (open, file write/close, exists,
remove, copy2, copyfileobj, TemporaryFile) goes through an interposer placed
in the command module's own namespace.  One run without faults counts the
calls (K); then, for every k in 1..K and every fault kind, the run is repeated
with exactly the k-th call failing:

    fail    OSError before the call has any effect
    perm    the same, raised as PermissionError (an error a caller might
            single out and swallow)
    torn    half of the bytes are written / copied, then OSError
    intr    the call takes full effect, then KeyboardInterrupt
    assert  (file writes only) half of the bytes are handed to the still
            buffered file object, then AssertionError - the emitter failure
            the tools' restore-the-original path exists for
"""
import builtins
import os
import shutil
import tempfile as real_tempfile
from types import SimpleNamespace

KINDS = ("fail", "torn", "intr", "assert", "perm")


class Injected(OSError):
    pass


class InjectedPerm(PermissionError):
    """The 'perm' kind: the call fails like 'fail', but with the specific
    PermissionError a handler somewhere might single out and swallow."""


def _fail(plan, msg):
    if plan.kind == "perm":
        raise InjectedPerm(13, msg)
    raise Injected(msg)


class Plan:
    def __init__(self, k=None, kind=None):
        self.k = k
        self.kind = kind
        self.n = 0
        self.log = []
        self.fired = None

    def point(self, name):
        """-> None (proceed) or the fault kind to apply at this call."""
        self.n += 1
        self.log.append(name)
        if self.k is not None and self.n == self.k:
            self.fired = name
            return "fail" if self.kind == "perm" else self.kind
        return None


class FaultyFile:
    """A file object whose write() and close() are fault points."""

    def __init__(self, fobj, plan, name):
        self._f = fobj
        self._plan = plan
        self._name = name

    def write(self, data):
        kind = self._plan.point("write:" + self._name)
        if kind == "fail":
            _fail(self._plan, "injected: write failed")
        if kind == "torn":
            self._f.write(data[:len(data) // 2])
            self._f.flush()
            _fail(self._plan, "injected: torn write")
        if kind == "assert":
            self._f.write(data[:len(data) // 2])      # stays buffered
            raise AssertionError("injected: emitter assertion")
        res = self._f.write(data)
        if kind == "intr":
            self._f.flush()
            raise KeyboardInterrupt()
        return res

    def close(self):
        kind = self._plan.point("close:" + self._name)
        self._f.close()
        if kind in ("fail", "torn", "assert"):
            _fail(self._plan, "injected: close failed")
        if kind == "intr":
            raise KeyboardInterrupt()

    def __enter__(self):
        return self

    def __exit__(self, *exc):
        if exc[0] is None:
            self.close()
        else:
            self._f.close()
        return False

    def __getattr__(self, name):
        return getattr(self._f, name)

    def __iter__(self):
        return iter(self._f)


def patches(plan):
    """Module-attribute patches for a command module."""

    def f_open(path, mode="r", *args, **kwargs):
        tag = "%s:%s" % (os.path.basename(str(path)), mode)
        kind = plan.point("open:" + tag)
        if kind in ("fail", "torn"):
            _fail(plan, "injected: open failed")
        fobj = builtins.open(path, mode, *args, **kwargs)
        if kind == "intr":
            fobj.close()
            raise KeyboardInterrupt()
        if "w" in mode or "a" in mode or "+" in mode:
            return FaultyFile(fobj, plan, tag)
        return fobj

    def f_exists(path):
        kind = plan.point("exists:" + os.path.basename(str(path)))
        if kind in ("fail", "torn"):
            _fail(plan, "injected: exists failed")
        res = os.path.exists(path)
        if kind == "intr":
            raise KeyboardInterrupt()
        return res

    def f_remove(path):
        kind = plan.point("remove:" + os.path.basename(str(path)))
        if kind in ("fail", "torn"):
            _fail(plan, "injected: remove failed")
        os.remove(path)
        if kind == "intr":
            raise KeyboardInterrupt()

    def f_copy2(src, dst, **kwargs):
        kind = plan.point("copy2:%s->%s" % (os.path.basename(str(src)),
                                            os.path.basename(str(dst))))
        if kind == "fail":
            _fail(plan, "injected: copy failed")
        if kind == "torn":
            with builtins.open(src, "rb") as fh:
                data = fh.read()
            with builtins.open(dst, "wb") as fh:
                fh.write(data[:len(data) // 2])
            _fail(plan, "injected: torn copy")
        shutil.copy2(src, dst, **kwargs)
        if kind == "intr":
            raise KeyboardInterrupt()
        return dst

    def f_copyfileobj(src, dst, *args):
        kind = plan.point("copyfileobj")
        if kind == "fail":
            _fail(plan, "injected: copyfileobj failed")
        if kind == "torn":
            data = src.read()
            dst.write(data[:len(data) // 2])
            _fail(plan, "injected: torn copyfileobj")
        shutil.copyfileobj(src, dst, *args)
        if kind == "intr":
            raise KeyboardInterrupt()

    def f_tempfile(*args, **kwargs):
        kind = plan.point("TemporaryFile")
        if kind in ("fail", "torn"):
            _fail(plan, "injected: TemporaryFile failed")
        fobj = real_tempfile.TemporaryFile(*args, **kwargs)
        if kind == "intr":
            fobj.close()
            raise KeyboardInterrupt()
        return fobj

    proxy = SimpleNamespace(TemporaryFile=f_tempfile)
    return {"open": f_open, "exists": f_exists, "remove": f_remove,
            "copy2": f_copy2, "copyfileobj": f_copyfileobj,
            "tempfile": proxy}
