"""
E4 - closed-world driver for the console entry points.

The real `main()` of each tool runs in-process under a harness that owns
argv, stdin (both `sys.stdin` and the copy `yamlpath.common.parsers` bound at
import time), stdout / stderr, the working directory and SystemExit.  A fixed
subset of cases is also run through the installed executables to show the
harness is faithful (subprocess conformance).
"""
import contextlib
import importlib
import io
import os
import shutil
import subprocess
import sys
import tempfile

TOOLS = {
    "yaml-get": "yamlpath.commands.yaml_get",
    "yaml-set": "yamlpath.commands.yaml_set",
    "yaml-merge": "yamlpath.commands.yaml_merge",
    "yaml-diff": "yamlpath.commands.yaml_diff",
    "yaml-validate": "yamlpath.commands.yaml_validate",
    "yaml-paths": "yamlpath.commands.yaml_paths",
    "eyaml-rotate-keys": "yamlpath.commands.eyaml_rotate_keys",
}


class FakeStdin(io.StringIO):
    def __init__(self, text, tty):
        super().__init__(text or "")
        self._tty = tty

    def isatty(self):
        return self._tty


class Result:
    __slots__ = ("code", "out", "err", "exc")

    def __init__(self, code, out, err, exc=None):
        self.code = code
        self.out = out
        self.err = err
        self.exc = exc          # a non-SystemExit exception that escaped

    def __repr__(self):
        return "Result(code=%r, out=%r, err=%r%s)" % (
            self.code, self.out[:200], self.err[:200],
            ", exc=%r" % self.exc if self.exc else "")


def module(tool):
    return importlib.import_module(TOOLS[tool])


def run(tool, argv, stdin=None, tty=None, cwd=None, patches=None):
    """Run one tool.  stdin=None means "no stdin document": a TTY unless
    tty=False is forced.  patches: {module attribute name: object} set on the
    command module for the duration of the run (fault injection)."""
    import yamlpath.common.parsers as parsers_mod
    from yamlpath.merger import Merger
    mod = module(tool)
    if tty is None:
        tty = stdin is None
    fake_in = FakeStdin(stdin, tty)
    out, err = io.StringIO(), io.StringIO()
    saved = (sys.argv, sys.stdin, sys.stdout, sys.stderr, parsers_mod.stdin,
             os.getcwd())
    saved_attrs = {}
    missing = object()
    code = 0
    exc = None
    try:
        sys.argv = [tool] + list(argv)
        sys.stdin = fake_in
        parsers_mod.stdin = fake_in
        sys.stdout, sys.stderr = out, err
        if cwd:
            os.chdir(cwd)
        Merger.depwarn_printed = False
        for name, obj in (patches or {}).items():
            saved_attrs[name] = getattr(mod, name, missing)
            setattr(mod, name, obj)
        try:
            mod.main()
        except SystemExit as ex:
            code = ex.code if isinstance(ex.code, int) else (
                0 if ex.code is None else 1)
        except BaseException as ex:      # pylint: disable=broad-except
            exc = ex
            code = -1
    finally:
        for name, obj in saved_attrs.items():
            if obj is missing:
                try:
                    delattr(mod, name)
                except AttributeError:
                    pass
            else:
                setattr(mod, name, obj)
        (sys.argv, sys.stdin, sys.stdout, sys.stderr, parsers_mod.stdin,
         cwd0) = saved
        os.chdir(cwd0)
    return Result(code, out.getvalue(), err.getvalue(), exc)


def run_subprocess(tool, argv, stdin=None, cwd=None):
    """The installed console script, for conformance with run()."""
    repo = os.environ.get("VERIF_REPO", "/repo")
    env = dict(os.environ)
    env["PYTHONPATH"] = repo
    cmd = [sys.executable, "-B", "-c",
           "import sys; from %s import main; sys.argv[0] = %r; main()"
           % (TOOLS[tool], tool)] + list(argv)
    proc = subprocess.run(
        cmd, input=(stdin or "").encode() if stdin is not None else None,
        stdin=None if stdin is not None else subprocess.DEVNULL,
        stdout=subprocess.PIPE, stderr=subprocess.PIPE, cwd=cwd, env=env,
        check=False)
    return Result(proc.returncode, proc.stdout.decode(), proc.stderr.decode())


@contextlib.contextmanager
def workdir(prefix="vkit-cli-"):
    base = "/dev/shm" if os.path.isdir("/dev/shm") else None
    path = tempfile.mkdtemp(prefix=prefix, dir=base)
    try:
        yield path
    finally:
        shutil.rmtree(path, ignore_errors=True)


def write(path, text):
    with open(path, "w", encoding="utf-8") as fh:
        fh.write(text)


def read(path):
    with open(path, "rb") as fh:
        return fh.read()


def listing(directory):
    return sorted(os.listdir(directory))
