"""
Plain-data model of edits (C03 set, C04 delete, C09 create): given the
document *before* the edit and the positions the reference evaluator says the
path matches, compute the canonical form the document must have afterwards.
Uses no library code.
"""
from vkit import refquery
from vkit.corpus import (anchor_of, canon, is_list, is_map, is_scalar, is_set,
                         plain_scalar, positions)

DELETED = object()


def alias_classes(doc):
    """Positions sharing one *anchored* object: {id: [pos...]} (keys of maps
    are reported as ('<key>', pos-of-map, key))."""
    out = {}
    seen_c = set()

    def walk(node, pos):
        if anchor_of(node):
            out.setdefault(id(node), []).append(pos)
        if is_map(node):
            if id(node) in seen_c:
                return
            seen_c.add(id(node))
            for k, v in node.items():
                if anchor_of(k):
                    out.setdefault(id(k), []).append(("<key>",) + pos + (k,))
                walk(v, pos + (k,))
        elif is_list(node):
            if id(node) in seen_c:
                return
            seen_c.add(id(node))
            for i, v in enumerate(node):
                walk(v, pos + (i,))
        elif is_set(node):
            for m in node:
                if anchor_of(m):
                    out.setdefault(id(m), []).append(pos + (m,))
    walk(doc, ())
    return out


def alias_signature(doc):
    """Hashable description of which positions share an anchored object."""
    return tuple(sorted((tuple(map(repr, v)) for v in
                         alias_classes(doc).values() if len(v) > 1)))


def wrap(node, new, anchors):
    name = anchor_of(node) if anchors else None
    if new == ("null", None):
        name = None       # a null cannot carry an anchor (it is plain None)
    if name:
        return ("&", name, new)
    return new


def edited(node, pos, repl_pos, repl_id, del_pos, anchors=True):
    """canon() of the document with replacements / deletions applied."""
    if pos in del_pos:
        return DELETED
    if pos in repl_pos:
        return wrap(node, repl_pos[pos], anchors)
    if id(node) in repl_id and anchor_of(node):
        return wrap(node, repl_id[id(node)], anchors)
    if is_map(node):
        items = []
        for k, v in node.items():
            if id(k) in repl_id and anchor_of(k):
                kc = wrap(k, repl_id[id(k)], anchors)
            else:
                kc = canon(k, anchors)
            vc = edited(v, pos + (k,), repl_pos, repl_id, del_pos, anchors)
            if vc is DELETED:
                continue
            items.append((kc, vc))
        return wrap(node, ("m", tuple(items)), anchors)
    if is_list(node):
        items = []
        for i, v in enumerate(node):
            vc = edited(v, pos + (i,), repl_pos, repl_id, del_pos, anchors)
            if vc is DELETED:
                continue
            items.append(vc)
        return wrap(node, ("l", tuple(items)), anchors)
    if is_set(node):
        items = []
        for m in node:
            p = pos + (m,)
            if p in del_pos:
                continue
            if p in repl_pos:
                items.append(wrap(m, repl_pos[p], anchors))
            elif id(m) in repl_id and anchor_of(m):
                items.append(wrap(m, repl_id[id(m)], anchors))
            else:
                items.append(canon(m, anchors))
        return wrap(node, ("s", tuple(sorted(items, key=repr))), anchors)
    return canon(node, anchors)


def matched(doc, segs, expand_slices=False):
    """Contexts the reference says the path matches (real nodes only)."""
    found = refquery.ev(segs, refquery.root_ctx(doc))
    ctxs = []
    for c in found:
        if expand_slices and c.pos is None and isinstance(
                c.node, refquery.VList) and segs and segs[-1][0] == "slice":
            # the path ends in an array slice: an edit through it is an edit
            # of each element the slice holds
            ctxs.extend(c.node)
        else:
            ctxs.append(c)
    for c in ctxs:
        if c.pos is None or c.virtual:
            raise refquery.Unspecified("virtual result")
    return ctxs


def expect_set(doc, ctxs, value, anchors=True):
    new = plain_scalar(value)
    repl_pos = {}
    repl_id = {}
    for c in ctxs:
        repl_pos[_norm(c)] = new
        if anchor_of(c.node):
            repl_id[id(c.node)] = new
    return edited(doc, (), repl_pos, repl_id, set(), anchors)


def expect_delete(doc, ctxs, anchors=True):
    del_pos = {_norm(c) for c in ctxs}
    return edited(doc, (), {}, {}, del_pos, anchors)


def _norm(c):
    return c.pos
