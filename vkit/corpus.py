"""
Document corpus: exhaustive enumeration of small documents, YAML rendering,
loading through the library's own strict loader, and a plain-data canonical
form that uses no library code.

A document *spec* is a nested tuple:
    ('m', ((key, spec), ...))   mapping (ordered)
    ('l', (spec, ...))          sequence
    ('s', (member, ...))        set of scalar members
    ('&', name, spec)           spec carrying an anchor
    ('*', name)                 alias to an earlier anchor
    ('<<', name)                only as a map *key* marker: (('<<', name), None)
    scalar                      None | bool | int | float | str
"""
import itertools
from functools import lru_cache
from types import SimpleNamespace

from ruamel.yaml.comments import CommentedMap, CommentedSeq, CommentedSet

from yamlpath.common import Parsers
from yamlpath.wrappers import ConsolePrinter

class QuietLog(ConsolePrinter):
    """The library logger with its stderr chatter muted (library-level
    harnesses only; the CLI harness uses the tools' own logger)."""

    def warning(self, message):
        pass

    def error(self, message, exit_code=None):
        if exit_code is not None:
            raise SystemExit(exit_code)

    def critical(self, message, exit_code=1):
        raise SystemExit(exit_code)


LOG = QuietLog(SimpleNamespace(verbose=False, quiet=True, debug=False))
_YAML = None


def yaml_editor():
    global _YAML
    if _YAML is None:
        _YAML = Parsers.get_yaml_editor()
    return _YAML


class LoadError(Exception):
    pass


def load(text):
    """Load YAML text with the library's strict loader (what users get)."""
    global _YAML
    data, ok = Parsers.get_yaml_data(yaml_editor(), LOG, text, literal=True)
    if not ok:
        # a ruamel YAML instance that failed mid-document keeps parser state
        # that poisons later loads: never reuse it
        _YAML = None
        raise LoadError(text)
    return data


def load_all(text):
    out = []
    global _YAML
    for data, ok in Parsers.get_yaml_multidoc_data(
            yaml_editor(), LOG, text, literal=True):
        if not ok:
            _YAML = None
            raise LoadError(text)
        out.append(data)
    return out


# ------------------------------------------------------------------ rendering
def rscalar(val):
    if val is None:
        return "null"
    if val is True:
        return "true"
    if val is False:
        return "false"
    if isinstance(val, (int, float)):
        return repr(val)
    return '"%s"' % str(val).replace("\\", "\\\\").replace('"', '\\"')


def render(spec):
    """Flow-style YAML text of a spec."""
    if isinstance(spec, tuple):
        tag = spec[0]
        if tag == "m":
            parts = []
            for key, val in spec[1]:
                if isinstance(key, tuple) and key[0] == "<<":
                    parts.append("<<: *%s" % key[1])
                elif isinstance(key, tuple):
                    parts.append("%s : %s" % (render(key), render(val)))
                else:
                    parts.append("%s: %s" % (rscalar(key), render(val)))
            return "{" + ", ".join(parts) + "}"
        if tag == "l":
            return "[" + ", ".join(render(v) for v in spec[1]) + "]"
        if tag == "s":
            if not spec[1]:
                return "!!set {}"
            return "!!set {" + ", ".join(
                "? %s" % rscalar(k) for k in spec[1]) + "}"
        if tag == "&":
            inner = render(spec[2])
            return "&%s %s" % (spec[1], inner)
        if tag == "*":
            return "*%s" % spec[1]
        raise ValueError(spec)
    return rscalar(spec)


def render_block(spec, indent=0):
    """Block-style YAML text (used for CLI subsets)."""
    pad = "  " * indent
    if isinstance(spec, tuple) and spec[0] == "m" and spec[1]:
        lines = []
        for key, val in spec[1]:
            if isinstance(key, tuple) and key[0] == "<<":
                lines.append("%s<<: *%s" % (pad, key[1]))
                continue
            ktxt = render(key) if isinstance(key, tuple) else rscalar(key)
            if _is_block(val):
                head = ""
                if val[0] == "&":
                    head = " &%s" % val[1]
                    val = val[2]
                lines.append("%s%s:%s" % (pad, ktxt, head))
                lines.append(render_block(val, indent + 1))
            else:
                lines.append("%s%s: %s" % (pad, ktxt, render(val)))
        return "\n".join(lines)
    if isinstance(spec, tuple) and spec[0] == "l" and spec[1]:
        lines = []
        for val in spec[1]:
            if _is_block(val) and val[0] != "&":
                sub = render_block(val, indent + 1)
                lines.append("%s- %s" % (pad, sub.lstrip()))
            else:
                lines.append("%s- %s" % (pad, render(val)))
        return "\n".join(lines)
    return pad + render(spec)


def _is_block(val):
    if not isinstance(val, tuple):
        return False
    if val[0] == "&":
        return _is_block(val[2])
    return val[0] in ("m", "l") and bool(val[1])


def to_json(spec):
    """JSON text for specs without sets / anchors / non-str keys."""
    import json

    def conv(s):
        if isinstance(s, tuple):
            if s[0] == "m":
                return {str(k): conv(v) for k, v in s[1]}
            if s[0] == "l":
                return [conv(v) for v in s[1]]
            raise ValueError(s)
        return s
    return json.dumps(conv(spec))


# ---------------------------------------------------------------- enumeration
def compositions(n):
    if n == 0:
        yield ()
        return
    for first in range(1, n + 1):
        for rest in compositions(n - first):
            yield (first,) + rest


def docs(nmax, scalars, keys, depth=3, sets=True, root_scalars=False):
    """All specs with <= nmax nodes (containers and scalars both count),
    smallest first, root a container (unless root_scalars)."""
    scalars = tuple(scalars)
    keys = tuple(keys)

    @lru_cache(None)
    def trees(n, d):
        out = []
        if n == 1:
            out.extend(scalars)
            out.append(("m", ()))
            out.append(("l", ()))
            return tuple(out)
        if d == 0:
            return ()
        for parts in compositions(n - 1):
            childsets = [trees(p, d - 1) for p in parts]
            if any(len(c) == 0 for c in childsets):
                continue
            for combo in itertools.product(*childsets):
                out.append(("l", combo))
                if len(parts) <= len(keys):
                    for ks in itertools.permutations(keys, len(parts)):
                        out.append(("m", tuple(zip(ks, combo))))
        if sets and n - 1 <= len(keys):
            strkeys = [k for k in keys if isinstance(k, str)]
            for ks in itertools.combinations(strkeys, n - 1):
                out.append(("s", ks))
        return tuple(out)

    res = []
    for n in range(1, nmax + 1):
        for t in trees(n, depth):
            if isinstance(t, tuple) or root_scalars:
                res.append(t)
    return res


def size(spec):
    if isinstance(spec, tuple):
        if spec[0] == "m":
            return 1 + sum(size(v) for _, v in spec[1])
        if spec[0] == "l":
            return 1 + sum(size(v) for v in spec[1])
        if spec[0] == "s":
            return 1 + len(spec[1])
        if spec[0] == "&":
            return size(spec[2])
        return 1
    return 1


# ------------------------------------------------- plain data (no library code)
def is_map(x):
    return isinstance(x, dict)


def is_list(x):
    return isinstance(x, list)


def is_set(x):
    return isinstance(x, (set, CommentedSet))


def is_scalar(x):
    return not (is_map(x) or is_list(x) or is_set(x))


def scalar_kind(x):
    if x is None:
        return "null"
    if isinstance(x, bool) or type(x).__name__ == "ScalarBoolean":
        # ruamel's ScalarBoolean is an int subclass that dumps as true/false
        return "bool"
    if isinstance(x, int):
        return "int"
    if isinstance(x, float):
        return "float"
    if isinstance(x, str):
        return "str"
    return type(x).__name__


def plain_scalar(x):
    kind = scalar_kind(x)
    if kind == "null":
        return ("null", None)
    if kind == "bool":
        return ("bool", bool(x))
    if kind == "int":
        return ("int", int(x))
    if kind == "float":
        return ("float", float(x))
    if kind == "str":
        return ("str", str(x))
    val = getattr(x, "value", None)
    if val is not None and not callable(val):
        return ("tagged", str(getattr(x, "tag", "")), plain_scalar(val))
    return (kind, str(x))


def anchor_of(x):
    anc = getattr(x, "anchor", None)
    if anc is None:
        return None
    val = getattr(anc, "value", None)
    return val


def canon(node, anchors=False, _seen=None):
    """Hashable canonical form: key order, list order, scalar type and (on
    request) anchor names are kept; comments / styles / line info dropped."""
    if _seen is None:
        _seen = {}
    anc = anchor_of(node) if anchors else None
    if is_map(node):
        body = ("m", tuple((canon(k, anchors, _seen), canon(v, anchors, _seen))
                           for k, v in node.items()))
    elif is_list(node):
        body = ("l", tuple(canon(v, anchors, _seen) for v in node))
    elif is_set(node):
        body = ("s", tuple(sorted((canon(v, anchors, _seen) for v in node),
                                  key=repr)))
    else:
        body = plain_scalar(node)
    if anc:
        return ("&", anc, body)
    return body


def positions(node, pos=()):
    """Pre-order list of (position, node, parent, ref); a position is the
    tuple of keys / indexes / set members from the root."""
    out = [(pos, node)]
    if is_map(node):
        for k, v in node.items():
            out.extend(positions(v, pos + (k,)))
    elif is_list(node):
        for i, v in enumerate(node):
            out.extend(positions(v, pos + (i,)))
    elif is_set(node):
        for m in node:
            out.append((pos + (m,), m))
    return out


def idmap(node):
    """position -> id(node object): the identity map of a document."""
    return {pos: id(n) for pos, n in positions(node)}


# ------------------------------------------------------------ collision pack
def collision_pack():
    """Exhaustive instantiation of a few shape families at fixed larger size
    (Arrays-of-Hashes need more nodes than the size-bounded corpus allows)."""
    out = []
    recs = []
    for a in ("-", None, 1000, "a"):
        for b in ("-", 1000):
            kv = []
            if a != "-":
                kv.append(("a", a))
            if b != "-":
                kv.append(("b", b))
            recs.append(("m", tuple(kv)))
    for r1 in recs:
        for r2 in recs:
            out.append(("l", (r1, r2)))                      # AoH, 2 records
            out.append(("m", (("a", ("l", (r1, r2))),)))     # AoH under a key
            out.append(("m", (("a", r1), ("b", r2))))        # hash of hashes
    for x in (1000, "a", None):
        out.append(("l", (("l", (("m", (("a", x),)),)), ("m", (("a", "a"),)))))
        out.append(("m", (("b", ("l", (("l", (("m", (("a", x),)),)),))),)))
    for x in ("a", 1000):
        out.append(("m", ((0, x), ("0", 1000), ("a", ("l", ("a", 1000))))))
        out.append(("m", (("1", x), (1, "a"), ("b", ("l", (x, "b"))))))
    pool = (None, True, 1000, 2.5, "a", "1000")
    for combo in itertools.product(pool, repeat=3):
        out.append(("l", combo))
    for n in (1, 2, 3):
        for ks in itertools.combinations(("a", "b", "1000"), n):
            out.append(("s", ks))
            out.append(("m", (("a", ("s", ks)), ("b", "a"))))
    for e1 in (("m", ()), ("l", ())):
        for e2 in (("m", ()), ("l", ()), "a"):
            out.append(("l", (e1, e2)))
            out.append(("m", (("a", e1), ("b", e2))))
    return out


def merge_pack():
    """Documents with YAML merge keys: a hash inheriting from an anchored
    hash - plain, overriding an inherited key, inside a list, twice, with the
    merge key first or last, and next to keys spelled like the anchor."""
    base = ("&", "B", ("m", (("a", 1000), ("b", "a"))))
    mk = ("<<", "B")
    out = [
        ("m", (("p", base), ("q", ("m", ((mk, None), ("c", 1000)))))),
        ("m", (("p", base), ("q", ("m", ((mk, None), ("a", "a")))))),
        ("m", (("p", base), ("q", ("m", (("c", "a"), (mk, None)))))),
        ("m", (("p", base), ("q", ("m", ((mk, None),))))),
        ("m", (("p", base), ("q", ("l", (("m", ((mk, None),)),
                                         ("m", ((mk, None), ("b", 1000)))))))),
        ("l", (base, ("m", ((mk, None), ("b", "a"), ("c", None))))),
        ("m", (("a", base), ("b", ("m", ((mk, None), ("B", 1000)))))),
        ("m", (("p", base), ("q", ("m", ((mk, None), ("c", ("m", (
            (mk, None), ("a", None))))))))),
    ]
    return out


def shape(spec):
    """Shape signature: structure and scalar kinds, values abstracted."""
    if isinstance(spec, tuple):
        if spec[0] == "m":
            return "{" + ",".join(
                "%s:%s" % (type(k).__name__[0], shape(v))
                for k, v in spec[1]) + "}"
        if spec[0] == "l":
            return "[" + ",".join(shape(v) for v in spec[1]) + "]"
        if spec[0] == "s":
            return "<%d>" % len(spec[1])
        if spec[0] == "&":
            return "&" + shape(spec[2])
        return spec[0]
    return "n" if spec is None else type(spec).__name__[0]


# -------------------------------------------------------- anchors decoration
def _scalar_slots(spec, path=()):
    """Paths (in the spec tree) of scalar values, and of map keys."""
    vals, keys = [], []
    if isinstance(spec, tuple) and spec[0] == "m":
        for i, (k, v) in enumerate(spec[1]):
            keys.append(path + (("k", i),))
            sv, sk = _scalar_slots(v, path + (("v", i),))
            vals += sv
            keys += sk
    elif isinstance(spec, tuple) and spec[0] == "l":
        for i, v in enumerate(spec[1]):
            sv, sk = _scalar_slots(v, path + (("e", i),))
            vals += sv
            keys += sk
    elif not isinstance(spec, tuple):
        vals.append(path)
    return vals, keys


def _put(spec, path, new):
    if not path:
        return new(spec) if callable(new) else new
    (kind, i), rest = path[0], path[1:]
    if kind == "e":
        items = list(spec[1])
        items[i] = _put(items[i], rest, new)
        return ("l", tuple(items))
    items = list(spec[1])
    k, v = items[i]
    if kind == "k":
        items[i] = (_put(k, rest, new), v)
    else:
        items[i] = (k, _put(v, rest, new))
    return ("m", tuple(items))


def decorations(spec, name="A", max_alias=2, key_alias=True):
    """All ways to anchor one scalar value and alias it from 1..max_alias
    later scalar-value slots and/or one later key slot (document order)."""
    vals, keys = _scalar_slots(spec)
    order = {}
    n = 0

    def number(s, path=()):
        nonlocal n
        if isinstance(s, tuple) and s[0] == "m":
            for i, (k, v) in enumerate(s[1]):
                order[path + (("k", i),)] = n
                n += 1
                number(v, path + (("v", i),))
        elif isinstance(s, tuple) and s[0] == "l":
            for i, v in enumerate(s[1]):
                number(v, path + (("e", i),))
        else:
            order[path] = n
            n += 1
    number(spec)
    out = []
    for ai, apath in enumerate(vals):
        later_vals = [p for p in vals if order[p] > order[apath]]
        later_keys = [p for p in keys if order[p] > order[apath]] \
            if key_alias else []
        combos = []
        for k in range(1, max_alias + 1):
            combos += [list(c) for c in itertools.combinations(later_vals, k)]
        for kp in later_keys:
            combos.append([kp])
            for vp in later_vals[:2]:
                combos.append([kp, vp])
        for combo in combos:
            s2 = _put(spec, apath, lambda v: ("&", name, v))
            ok = True
            for p in combo:
                if p[-1][0] == "k":
                    # two alias keys in one map would be duplicate keys
                    pass
                s2 = _put(s2, p, ("*", name))
            if ok:
                out.append(s2)
    return out
