"""
Shared machinery of every check: sharded exhaustive exploration, failure
classification (known finding / violation), replay files and evidence.

A property module (vkit/props/Cxx.py) provides

    ID, LEVEL, RULE, ASSUMPTIONS
    plan(tier)          -> (shards, bounds)     shards: picklable work items
    run_shard(shard)    -> Stats                explored on the real code
    replay(case)        -> failure dict | None  re-decide ONE case
    repro(case)         -> str                  stand-alone script (optional)

A failure is a dict {cls, case, expected, observed}.  `cls` names the violation
class (segment-kind signature x divergence kind) and is what replay files and
known findings are grouped by.
"""
import collections
import faulthandler
import signal
import hashlib
import json
import multiprocessing
import os
import sys
import time
import traceback

try:
    faulthandler.register(signal.SIGUSR1, all_threads=True)
except (AttributeError, ValueError, OSError):
    pass

VERIF = os.path.dirname(os.path.dirname(os.path.abspath(__file__)))
REPO = os.environ.get("VERIF_REPO", "/repo")
MAX_FAILS_PER_CLASS = 3          # kept per shard per class (counts are exact)
MAX_REPLAY_CLASSES = int(os.environ.get("VERIF_MAXREPLAY", "20"))


def jobs():
    try:
        n = int(os.environ.get("VERIF_JOBS", "0"))
    except ValueError:
        n = 0
    return n or min(16, os.cpu_count() or 1)


def digest(obj):
    return hashlib.sha1(
        json.dumps(obj, sort_keys=True, default=repr).encode()).hexdigest()[:12]


class Stats:
    """What one shard (or the whole run) explored.  Mergeable."""

    def __init__(self, prop=None):
        self.prop = prop
        self.known = collections.Counter()  # known-finding id -> cases
        self.evaluations = 0
        self.states = 0
        self.transitions = 0
        self.validated = 0
        self.sigs = set()                  # hashes of distinct non-trivial cases
        self.outcomes = collections.Counter()
        self.fail_counts = collections.Counter()
        self.fails = {}                    # cls -> [failure...]
        self.samples = []
        self.extra = collections.Counter()
        self.capped = None                 # text when a cap stopped the shard

    def sig(self, *parts):
        self.sigs.add(hash(parts))

    def sample(self, s, cap=3):
        if len(self.samples) < cap:
            self.samples.append(s)

    def fail(self, cls, case, expected, observed, **more):
        """Record a failing case; every one is attributed individually."""
        f = {"cls": cls, "case": case, "expected": expected,
             "observed": observed}
        f.update(more)
        who = attribute(f, findings_for(self.prop)) if self.prop else None
        if who:
            self.known[who] += 1
            return
        self.fail_counts[cls] += 1
        lst = self.fails.setdefault(cls, [])
        if len(lst) < MAX_FAILS_PER_CLASS:
            lst.append(f)

    def merge(self, o):
        self.evaluations += o.evaluations
        self.states += o.states
        self.transitions += o.transitions
        self.validated += o.validated
        self.sigs |= o.sigs
        self.outcomes.update(o.outcomes)
        self.fail_counts.update(o.fail_counts)
        self.known.update(o.known)
        self.extra.update(o.extra)
        for cls, lst in o.fails.items():
            mine = self.fails.setdefault(cls, [])
            for f in lst:
                if len(mine) < MAX_FAILS_PER_CLASS * 4:
                    mine.append(f)
        for s in o.samples:
            if len(self.samples) < 12:
                self.samples.append(s)
        if o.capped and not self.capped:
            self.capped = o.capped


_MOD = None
_HISTORY = []          # shards this (long-lived) worker process has run so far


def _worker(arg):
    idx, shard = arg
    try:
        _HISTORY.append(shard)
        st = _MOD.run_shard(shard)
        # a failure may depend on what this process did before (caches, class
        # attributes ...): the shards run so far are its replayable history
        for lst in st.fails.values():
            for f in lst:
                f["history"] = list(_HISTORY)
        return idx, st, None
    except BaseException:     # pylint: disable=broad-except
        return idx, None, traceback.format_exc()


_POOL = None
_POOL_FN = None


def _call(arg):
    try:
        return _POOL_FN(arg), None
    except BaseException:     # pylint: disable=broad-except
        return None, traceback.format_exc()


def pmap(func, items, chunksize=1):
    """Ordered parallel map with fork-started, long-lived workers.

    `func` must be a module-level function.  A worker exception is re-raised
    here as a HarnessError (never mistaken for a property violation).
    """
    global _POOL_FN
    items = list(items)
    nj = min(jobs(), max(1, len(items)))
    if nj <= 1:
        out = []
        for it in items:
            out.append(func(it))
        return out
    _POOL_FN = func
    ctx = multiprocessing.get_context("fork")
    pool = ctx.Pool(nj)
    try:
        res = pool.map(_call, items, chunksize)
    finally:
        pool.terminate()
        pool.join()
    out = []
    for val, err in res:
        if err:
            raise HarnessError(err)
        out.append(val)
    return out


class HarnessError(Exception):
    pass


def explore(mod, shards, seed=0):
    """Run every shard (order rotated by seed, coverage unaffected)."""
    global _MOD
    _MOD = mod
    total = Stats(mod.ID)
    n = len(shards)
    order = list(range(n))
    if n:
        rot = seed % n
        order = order[rot:] + order[:rot]
    work = [(i, shards[i]) for i in order]
    errors = []
    nj = min(jobs(), max(1, n))
    if nj <= 1:
        results = map(_worker, work)
        pool = None
    else:
        ctx = multiprocessing.get_context("fork")
        pool = ctx.Pool(nj)
        results = pool.imap_unordered(_worker, work, 1)
    try:
        for idx, st, err in results:
            if err:
                errors.append((idx, err))
            else:
                total.merge(st)
    finally:
        if pool is not None:
            pool.terminate()
            pool.join()
    return total, errors


# ---------------------------------------------------------------------------
# known findings
# ---------------------------------------------------------------------------

def load_findings(prop):
    path = os.path.join(VERIF, "known_findings.jsonl")
    out = []
    if os.path.exists(path):
        with open(path, encoding="utf-8") as fh:
            for line in fh:
                line = line.strip()
                if not line or line.startswith("#"):
                    continue
                ent = json.loads(line)
                if ent.get("property") == prop:
                    out.append(ent)
    return out


_FINDINGS = {}


def findings_for(prop):
    if prop not in _FINDINGS:
        _FINDINGS[prop] = load_findings(prop)
    return _FINDINGS[prop]


def attribute(failure, findings):
    """Name of the *known* finding this failure is an instance of, or None."""
    from vkit import deviants
    for ent in findings:
        if ent.get("status") != "known":
            continue                       # fixed entries suppress nothing
        fn = getattr(deviants, ent["matcher"])
        try:
            if fn(failure):
                return ent["id"]
        except Exception:                  # pylint: disable=broad-except
            continue
    return None


# ---------------------------------------------------------------------------
# evidence
# ---------------------------------------------------------------------------

def write_evidence(mod, tier, seed, stats, bounds, wall, n_viol, known_counts,
                   exhaustive, notes=None):
    cov = {
        "evaluations": stats.evaluations,
        "distinct_nontrivial": len(stats.sigs),
        "rule": mod.RULE,
        "samples": stats.samples[:12] or ["<none>"],
        "states": stats.states,
        "transitions": stats.transitions,
        "traces_validated_against_impl": stats.validated,
        "exhaustive": bool(exhaustive),
        "bounds": bounds,
        "outcomes": dict(stats.outcomes.most_common(40)),
        "distinct_outcomes": len(stats.outcomes),
        "failure_classes": dict(stats.fail_counts),
        "known_findings_matched": known_counts,
        "implementation": REPO,
    }
    for k, v in stats.extra.items():
        cov[k] = v
    if stats.capped:
        cov["cap_hit"] = stats.capped
    if notes:
        cov["notes"] = notes
    ev = {
        "property_id": mod.ID,
        "tier": tier,
        "seed": seed,
        "level": mod.LEVEL,
        "coverage": cov,
        "assumptions": list(mod.ASSUMPTIONS),
        "wall_s": round(wall, 2),
        "violations": n_viol,
    }
    # evidence describes /repo itself; a run against a scratch copy (seeded
    # changes, VERIF_REPO elsewhere) must not overwrite it
    evdir = os.environ.get("VERIF_EVIDENCE_DIR") or (
        os.path.join(VERIF, "evidence") if os.path.realpath(REPO) == "/repo"
        else os.path.join("/dev/shm", "verif-evidence-scratch"))
    os.makedirs(evdir, exist_ok=True)
    path = os.path.join(evdir, mod.ID + ".json")
    tmp = path + ".tmp"
    with open(tmp, "w", encoding="utf-8") as fh:
        json.dump(ev, fh, indent=1, default=repr, sort_keys=True)
        fh.write("\n")
    os.replace(tmp, path)
    return path


def as_tuples(x):
    if isinstance(x, (list, tuple)):
        return tuple(as_tuples(i) for i in x)
    return x


def replay_history(mod, doc):
    """Re-run, in this fresh process, the shards the reporting worker had run
    up to and including the failing one; -> the same failure or None."""
    shards, _ = mod.plan(doc.get("tier") or "quick")
    known = {digest(sh): sh for sh in shards}
    want = digest([doc["cls"], doc["case"]])
    for sh in doc["history"]:
        sh = known.get(digest(sh), as_tuples(sh))
        st = mod.run_shard(sh)
        for lst in st.fails.values():
            for f in lst:
                if digest([f["cls"], f["case"]]) == want:
                    return f
    return None


def write_replay(mod, failure, tier=None):
    os.makedirs(os.path.join(VERIF, "replays"), exist_ok=True)
    name = "%s-%s.json" % (mod.ID, digest([failure["cls"], failure["case"]]))
    path = os.path.join(VERIF, "replays", name)
    doc = dict(failure)
    doc["property_id"] = mod.ID
    doc["tier"] = tier
    if hasattr(mod, "repro"):
        try:
            doc["repro_py"] = mod.repro(failure["case"])
        except Exception:                  # pylint: disable=broad-except
            pass
    with open(path, "w", encoding="utf-8") as fh:
        json.dump(doc, fh, indent=1, default=repr)
        fh.write("\n")
    return path


class Hang(BaseException):
    """Raised inside the code under test by the watchdog."""


def _hang(signum, frame):
    raise Hang()


class watchdog:
    """with watchdog(5): ...   raises Hang when the body runs too long, so a
    non-terminating library call becomes a reportable outcome, not a stuck
    check."""

    def __init__(self, seconds):
        self.seconds = seconds
        self.old = None

    def __enter__(self):
        self.old = signal.signal(signal.SIGALRM, _hang)
        signal.alarm(self.seconds)
        return self

    def __exit__(self, *exc):
        signal.alarm(0)
        signal.signal(signal.SIGALRM, self.old)
        return False


def now():
    return time.time()


def eprint(*a):
    print(*a, file=sys.stderr, flush=True)
