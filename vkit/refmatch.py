"""
Reference for C12: how one search operator compares one document value (the
haystack, as the YAML loader produced it) with one term (always text).

Written from the property statement and the README, sharing no code with
yamlpath.common.searches:

  * equality is numeric when both sides are numbers of the same kind
    (int/int, float/float), boolean against the case-insensitive spellings
    true/false, textual otherwise;
  * < > <= >= are numeric for a numeric value (false when the term is not a
    number) and lexicographic on text otherwise;
  * ^ $ % act on the value's text; =~ is an unanchored regular-expression
    search in the value's text;
  * a bool is not a number.

`classify()` recognises only the spellings on which "Python literal" and
"YAML scalar" agree.  A string whose spelling is a *different* kind of literal
(0x10, 1_000, None, [1], 'q', 1e3 ...) is AMBIGUOUS: the documents do not say
whether its text or its literal value is compared, so match() answers
UNSPECIFIED and callers check only that the comparison does not raise.
"""
import operator
import re

UNSPECIFIED = None

_INT = re.compile(r"^[+-]?(0|[1-9][0-9]*)$")
_FLOAT = re.compile(r"^[+-]?([0-9]+\.[0-9]*|\.[0-9]+)$")


class Ambiguous(Exception):
    pass


def classify_text(text):
    """-> ('bool'|'int'|'float'|'str', value) for a piece of text, or raise
    Ambiguous when the spelling is (or may be) some other Python literal."""
    low = text.lower()
    if low in ("true", "false"):
        return "bool", low == "true"
    if _INT.match(text):
        if text.startswith("+"):
            raise Ambiguous(text)
        return "int", int(text)
    if _FLOAT.match(text):
        if text.startswith("+"):
            raise Ambiguous(text)
        return "float", float(text)
    if text == "":
        return "str", text
    first = text[0]
    if first.isalpha() or first == "_":
        if text in ("None", "Ellipsis"):
            raise Ambiguous(text)
        if re.match(r"^[bBrRuUfF]{1,2}['\"]", text):
            raise Ambiguous(text)
        return "str", text
    if first in "^$|*?\\/:;,<>=!@#%&` ." and text != "...":
        return "str", text
    if _plainly_text(text):
        return "str", text
    raise Ambiguous(text)


_TEXTLIKE = {}


def _plainly_text(text):
    """Other spellings (1.1.5, 1.5-rc1, 1+ ...) are text when BOTH readings
    agree: it is no Python literal at all and YAML loads it as a string."""
    if text not in _TEXTLIKE:
        import ast
        verdict = False
        if len(text) < 40 and "\n" not in text and text.strip() == text:
            try:
                ast.literal_eval(text)
            except (ValueError, SyntaxError, TypeError, MemoryError,
                    RecursionError):
                from vkit import corpus
                try:
                    loaded = corpus.load(text + "\n")
                    verdict = type(loaded).__name__ in (
                        "str", "PlainScalarString") and str(loaded) == text
                except Exception:         # pylint: disable=broad-except
                    verdict = False
        _TEXTLIKE[text] = verdict
    return _TEXTLIKE[text]


def classify(value):
    """Kind and comparable value of a loaded document scalar."""
    if value is None:
        return "null", None
    if isinstance(value, bool) or type(value).__name__ == "ScalarBoolean":
        # (an anchored boolean is loaded as a wrapper around 1 / 0)
        return "bool", bool(value)
    if isinstance(value, int):
        return "int", int(value)
    if isinstance(value, float):
        return "float", float(value)
    if isinstance(value, str):
        return classify_text(str(value))
    raise Ambiguous(repr(value))


def text_of(kind, val):
    if kind == "null":
        raise Ambiguous("text of null")
    if kind == "bool":
        return "True" if val else "False"
    return str(val)


_ORD = {"<": operator.lt, ">": operator.gt, "<=": operator.le,
        ">=": operator.ge}


def match(op, term, haystack):
    """True / False, or UNSPECIFIED when the documents do not decide."""
    try:
        hkind, hval = classify(haystack)
        tkind, tval = classify_text(term)
    except Ambiguous:
        return UNSPECIFIED
    if hkind == "null":
        # the text of a null is nowhere defined
        return UNSPECIFIED
    if isinstance(haystack, float) and str(haystack) != str(float(haystack)):
        return UNSPECIFIED
    htext = text_of(hkind, hval)
    if hkind == "float" and not isinstance(haystack, str):
        htext = str(haystack)
    if hkind == "bool" and op != "=":
        # is the text of a boolean "true" or "True"?  Nowhere defined.
        return UNSPECIFIED
    if op == "=":
        if hkind == "bool":
            return tkind == "bool" and hval == tval
        if hkind == "int" and tkind == "int":
            return hval == tval
        if hkind == "float" and tkind == "float":
            return hval == tval
        if tkind == "bool":
            return False
        return htext == term
    if op == "^":
        return htext.startswith(term)
    if op == "$":
        return htext.endswith(term)
    if op == "%":
        return term in htext
    if op in _ORD:
        if hkind in ("int", "float"):
            if tkind in ("int", "float"):
                return _ORD[op](hval, tval)
            return False
        return _ORD[op](htext, term)
    if op == "=~":
        try:
            return re.search(term, htext) is not None
        except re.error:
            return UNSPECIFIED
    raise ValueError(op)
