"""
E6 - a deterministic stand-in for the hiera-eyaml executable.

    eyaml encrypt|decrypt --quiet --stdin [--output=string|block]
          --pkcs7-public-key=F --pkcs7-private-key=F

Keyed, reversible cipher: ENC[PKCS7,<key id>.<hex(plaintext xor keystream)>]
Decrypting with keys other than those used to encrypt exits 1 (as hiera-eyaml
does); block output is folded with CR LF and indentation so that the caller's
un-folding is exercised.  The same functions serve as an in-process
replacement of `subprocess.run` (with a call log) and as a real executable
(tools/fake-eyaml).
"""
import hashlib
import re
import subprocess
import sys


class BadKey(Exception):
    pass


def key_material(argv):
    pub = priv = None
    for arg in argv:
        if arg.startswith("--pkcs7-public-key="):
            pub = arg.split("=", 1)[1]
        elif arg.startswith("--pkcs7-private-key="):
            priv = arg.split("=", 1)[1]
    if not pub or not priv:
        raise BadKey("both keys are required")
    data = b""
    for path in (pub, priv):
        try:
            with open(path, "rb") as fh:
                data += fh.read()
        except OSError as ex:
            raise BadKey(str(ex))
    return data


def stream(key, n):
    out = b""
    counter = 0
    while len(out) < n:
        out += hashlib.sha256(key + str(counter).encode()).digest()
        counter += 1
    return out[:n]


def key_id(key):
    return hashlib.sha256(b"id" + key).hexdigest()[:8]


def encrypt(plain, key, block=False):
    data = plain.encode("ascii")
    body = bytes(a ^ b for a, b in zip(data, stream(key, len(data)))).hex()
    text = "ENC[PKCS7,%s.%s]" % (key_id(key), body)
    if not block:
        return text
    lines = [text[i:i + 40] for i in range(0, len(text), 40)]
    return "    " + "\r\n    ".join(lines)


def decrypt(cipher, key):
    clean = re.sub(r"\s", "", cipher)
    m = re.match(r"^ENC\[PKCS7,([0-9a-f]{8})\.([0-9a-f]*)\]$", clean)
    if not m:
        raise BadKey("not an encrypted value: %r" % clean[:30])
    if m.group(1) != key_id(key):
        raise BadKey("wrong keys")
    data = bytes.fromhex(m.group(2))
    return bytes(a ^ b for a, b in zip(data, stream(key, len(data)))).decode(
        "ascii")


def command(argv, stdin_bytes):
    """-> (exit code, stdout bytes)"""
    if len(argv) < 2 or argv[1] not in ("encrypt", "decrypt"):
        return 2, b""
    try:
        key = key_material(argv)
        text = stdin_bytes.decode("ascii")
        if argv[1] == "encrypt":
            block = "--output=block" in argv
            return 0, (encrypt(text, key, block) + "\n").encode("ascii")
        return 0, (decrypt(text, key) + "\n").encode("ascii")
    except (BadKey, UnicodeError, ValueError):
        return 1, b""


class InProcess:
    """Replacement for subprocess.run inside yamlpath.eyaml.eyamlprocessor."""

    def __init__(self):
        self.log = []

    def __call__(self, cmd, stdout=None, input=None, check=False,
                 shell=False, **kwargs):
        # text mode as subprocess.run implements it: str in, str out, with
        # universal-newline translation of what the child printed
        text_mode = bool(kwargs.get("encoding") or kwargs.get("errors")
                         or kwargs.get("text")
                         or kwargs.get("universal_newlines"))
        data = input if input is not None else b""
        if text_mode:
            if not isinstance(data, str):
                raise TypeError("a str is required in text mode")
            data = data.encode(kwargs.get("encoding") or "utf-8")
        elif isinstance(data, str):
            raise TypeError("a bytes-like object is required, not 'str'")
        code, out = command(list(cmd), data)
        self.log.append((cmd[1], code))
        if text_mode:
            out = out.decode(kwargs.get("encoding") or "utf-8").replace(
                "\r\n", "\n").replace("\r", "\n")
        if code != 0 and check:
            raise subprocess.CalledProcessError(code, cmd)
        return subprocess.CompletedProcess(cmd, code, stdout=out)


def main():
    code, out = command(sys.argv, sys.stdin.buffer.read())
    sys.stdout.buffer.write(out)
    sys.exit(code)
