"""
E3 - the reachable state graph of the hand-written path parser.

A *state* is the tuple of the live locals of YAMLPath._parse_path after it has
consumed a prefix; a *transition* appends one alphabet symbol and re-parses on
the real code.  Locals are read with sys.monitoring (PY_RETURN / PY_UNWIND on
that one code object) - no source hook.

Soundness of the state key.  Variables are dropped from the key only when an
AST pass over the *current* source shows every read of them sits inside an
argument of `path_segments.append(...)`, inside a `raise`, or in `return` -
i.e. they are never read by a branch condition, subscript or call that could
influence control flow.  Merging two prefixes with equal keys is then sound:
the loop body is a function of (key, next character).  The input text itself
(`yaml_path`, the loop variables) is not state.  If the parser is refactored so
that the function or its loop cannot be found, the graph reports itself
unavailable and C14 rests on the black-box enumeration.
"""
import ast
import inspect
import sys
import textwrap

from yamlpath import YAMLPath
from yamlpath.exceptions import YAMLPathException

INPUT_VARS = {"self", "yaml_path", "char", "char_idx", "strip_escapes",
              "first_anchor_pos"}
TOOL = 3


class Unavailable(Exception):
    pass


def analyse():
    """-> (code, droppable names, first line after the main loop)"""
    fn = getattr(YAMLPath, "_parse_path", None)
    if fn is None:
        raise Unavailable("YAMLPath._parse_path not found")
    try:
        src = textwrap.dedent(inspect.getsource(fn))
        first = fn.__code__.co_firstlineno
        tree = ast.parse(src)
    except (OSError, SyntaxError) as ex:
        raise Unavailable(str(ex)) from ex
    func = tree.body[0]
    loops = [n for n in func.body if isinstance(n, ast.For)]
    if len(loops) != 1:
        raise Unavailable("expected exactly one top-level loop in the parser")
    loop_end = first + loops[0].end_lineno - 1
    after = func.body[func.body.index(loops[0]) + 1:]
    if not after:
        raise Unavailable("nothing follows the parser loop")
    post_line = first + after[0].lineno - 1

    neutral_ids = set()     # id() of Name nodes whose read cannot steer control

    def mark(node):
        for sub in ast.walk(node):
            if isinstance(sub, ast.Name):
                neutral_ids.add(id(sub))

    for node in ast.walk(func):
        if isinstance(node, ast.Raise):
            mark(node)
        elif isinstance(node, ast.Return):
            mark(node)
        elif (isinstance(node, ast.Call)
              and isinstance(node.func, ast.Attribute)
              and node.func.attr == "append"
              and isinstance(node.func.value, ast.Name)
              and node.func.value.id == "path_segments"):
            for arg in node.args:
                # `self._expand_splats(yaml_path, segment_id, ...)` can raise
                # depending on its arguments: not neutral.
                if any(isinstance(s, ast.Call)
                       and isinstance(s.func, ast.Attribute)
                       and isinstance(s.func.value, ast.Name)
                       and s.func.value.id == "self"
                       for s in ast.walk(arg)):
                    continue
                mark(arg)
            neutral_ids.add(id(node.func.value))
    reads = {}
    for node in ast.walk(func):
        if isinstance(node, ast.Name) and isinstance(node.ctx, ast.Load):
            reads.setdefault(node.id, []).append(id(node) in neutral_ids)
    droppable = {name for name, flags in reads.items() if all(flags)}
    return fn.__code__, droppable, post_line


class Observer:
    """Runs the real parser on a text and reports (result class, state key).

    The locals are snapshotted when control reaches the first statement after
    the character loop, i.e. exactly "after consuming the whole prefix".
    """

    def __init__(self):
        self.code, self.droppable, self.post_line = analyse()
        self.snap = None
        mon = sys.monitoring
        if mon.get_tool(TOOL) is None:
            mon.use_tool_id(TOOL, "vkit-parsergraph")
        mon.register_callback(TOOL, mon.events.LINE, self._on_line)
        mon.set_local_events(TOOL, self.code, mon.events.LINE)

    def _on_line(self, code, line):
        if line != self.post_line:
            return sys.monitoring.DISABLE      # this location only
        self.snap = dict(sys._getframe(1).f_locals)
        return None

    def key(self, loc):
        out = []
        for name in sorted(loc):
            if name in INPUT_VARS or name in self.droppable:
                continue
            val = loc[name]
            if isinstance(val, list):
                val = tuple(val)
            elif isinstance(val, (str, int, bool, type(None))):
                pass
            else:
                val = str(val)
            out.append((name, val))
        return tuple(out)

    def run(self, text):
        """-> (result, key, absorbing)

        result: 'ok' | 'ype' | 'EXC:<type>';  key: state after the prefix, or
        None; absorbing: the parse died *inside* the loop (every extension
        dies the same way once the first two characters are fixed).
        """
        self.snap = None
        path = YAMLPath(text)
        try:
            path._parse_path(True)      # pylint: disable=protected-access
            res = "ok"
        except YAMLPathException:
            res = "ype"
        except Exception as ex:         # pylint: disable=broad-except
            res = "EXC:" + type(ex).__name__
        if self.snap is None:
            # empty path (early return) or death inside the loop
            return res, None, res != "ok"
        return res, self.key(self.snap), False

    def close(self):
        mon = sys.monitoring
        mon.set_local_events(TOOL, self.code, 0)
        mon.free_tool_id(TOOL)
