"""
Path ASTs, vocabularies and two *independent* renderers (dot, forward-slash),
written from the README grammar.  Nothing here calls YAMLPath.__str__,
escape_path_section or ensure_escaped.

Segment ASTs:
    ('key', text)                      ('idx', n)
    ('slice', a, b)   ints: array slice; strs: hash slice
    ('anchor', name)                   ('all',)          ('trav',)
    ('search', attr, op, term, inverted)
    ('kw', name, (param, ...), inverted)
    ('coll', op, (segment, ...))       op in '', '+', '-', '&'
"""
import itertools

OPS = ("=", "^", "$", "%", "<", ">", "<=", ">=", "=~")
# characters the path syntax defines an escape for (YAMLPath.escape_path_section)
ESCAPABLE = ["\\", ".", "/", "(", ")", "[", "]", "^", "$", "%", " ", "'", '"']


def esc_bs(text, sep, extra=""):
    """Backslash-escape every character with syntactic meaning."""
    out = []
    special = set("\\()[]^$% '\"" + sep + extra)
    for ch in text:
        if ch in special:
            out.append("\\")
        out.append(ch)
    return "".join(out)


def esc_q(text, quote="'"):
    """Quote-demarcate; the quote itself and backslashes are escaped."""
    return quote + text.replace("\\", "\\\\").replace(
        quote, "\\" + quote) + quote


def quotable(text):
    """README documents quote demarcation for dots, separators and spaces;
    brackets and parentheses keep their meaning inside quotes, so text
    holding them (or nothing at all) is always backslash-escaped."""
    return bool(text) and not any(ch in "[]()\\'\"" for ch in text)


def render_seg(seg, sep, style="bs"):
    """-> (text, keyish) keyish: needs a separator before it."""
    kind = seg[0]
    if kind == "key":
        text = seg[1]
        if style == "bs" or not quotable(text):
            return esc_bs(text, sep), True
        return esc_q(text), True
    if kind == "idx":
        return "[%d]" % seg[1], False
    if kind == "slice":
        a, b = seg[1], seg[2]
        if isinstance(a, int):
            return "[%d:%d]" % (a, b), False
        return "[%s:%s]" % (esc_bs(a, sep, ":"), esc_bs(b, sep, ":")), False
    if kind == "anchor":
        return "[&%s]" % esc_bs(seg[1], sep), False
    if kind == "all":
        return "*", True
    if kind == "glob":
        # a key written with wildcards: the literal parts between the stars
        return "*".join(esc_bs(part, sep) for part in seg[1]), True
    if kind == "trav":
        return "**", True
    if kind == "search":
        _, attr, op, term, inv = seg
        atxt = attr if attr == "." else esc_bs(attr, "", "=!<>~")
        if op == "=~":
            delim = "/"
            for cand in "/|_#@;":
                if cand not in term:
                    delim = cand
                    break
            ttxt = delim + term + delim
        elif style in ("qq1", "qq2") and term and not any(
                ch in "[]()" for ch in term):
            # README: an operand may be demarcated; embedded ' and " (and the
            # backslash) are then escaped
            mark = '"' if style == "qq1" else "'"
            ttxt = mark + term.replace("\\", "\\\\").replace(
                '"', '\\"').replace("'", "\\'") + mark
        elif style == "bs" or not quotable(term):
            ttxt = esc_bs(term, "", "")
        else:
            ttxt = esc_q(term, '"')
        return "[%s%s%s%s]" % (atxt, "!" if inv else "", op, ttxt), False
    if kind == "kw":
        _, name, params, inv = seg
        ptxt = ", ".join(
            esc_q(p, '"') if (style != "bs" and quotable(p))
            else esc_bs(p, "", ",") for p in params)
        return "[%s%s(%s)]" % ("!" if inv else "", name, ptxt), False
    if kind == "coll":
        _, op, inner = seg
        if style == "rel":
            # the inner path keeps dot notation whatever the outer one is (as
            # the canonical string of a dot-notated collector does)
            return "%s(%s)" % (op, render(inner, ".", "q", inner=True)), False
        return "%s(%s)" % (op, render(inner, sep, style, inner=True)), False
    raise ValueError(seg)


def render(segs, sep, style="bs", inner=False):
    """Text of a path in dot ('.') or forward-slash ('/') notation."""
    out = ""
    first = True
    for seg in segs:
        text, keyish = render_seg(seg, sep, style)
        if first and seg[0] == "anchor" and style not in ("bs", "rel"):
            # the other documented spelling: a path (or a collector's inner
            # path) may open with a bare &anchor
            text, keyish = "&%s" % esc_bs(seg[1], sep), True
        if sep == "/":
            if keyish or first:
                out += "/" + text
            else:
                out += text
        else:
            if keyish and not first:
                out += "." + text
            else:
                out += text
        first = False
    if sep == "/" and not segs:
        return "/"
    return out


def sig(segs):
    """Segment-kind signature of a path (used to class failures)."""
    out = []
    for seg in segs:
        if seg[0] == "search":
            out.append("search(%s%s%s)" % (
                "." if seg[1] == "." else "attr", "!" if seg[4] else "",
                seg[2]))
        elif seg[0] == "kw":
            out.append("%s%s(%d)" % ("!" if seg[3] else "", seg[1],
                                     len(seg[2])))
        elif seg[0] == "coll":
            out.append("%s(%s)" % (seg[1], sig(seg[2])))
        elif seg[0] == "slice":
            out.append("slice" if isinstance(seg[1], int) else "hslice")
        else:
            out.append(seg[0])
    return "/".join(out)


# -------------------------------------------------------------- vocabularies
def vocab(level):
    """The segment alphabet of a level (simplest first)."""
    v = []
    if level == "c01-quick":
        for k in ("a", "b", "0", "1", "-1"):
            v.append(("key", k))
        for i in (0, 1, -1):
            v.append(("idx", i))
        v.append(("all",))
        v.append(("trav",))
        for attr in (".", "a"):
            for op in ("=", "^", ">", "=~"):
                for term in ("a", "1000"):
                    for inv in (False, True):
                        v.append(("search", attr, op, term, inv))
        return v
    if level == "c01-full":
        for k in ("a", "b", "0", "1", "-1", "1000"):
            v.append(("key", k))
        for i in (0, 1, 2, -1, -2):
            v.append(("idx", i))
        for a, b in ((0, 1), (0, 2), (1, 2), (1, 1), (0, 0), (-1, -1),
                     (-2, 3), (0, -1), (-1, 0), (1, -1), (-3, 2), (2, 1),
                     (-2, -1), (-5, 2), (1, 9)):
            v.append(("slice", a, b))
        v.append(("slice", "a", "b"))
        v.append(("slice", "a", "a"))
        for n in ("A", "B"):
            v.append(("anchor", n))
        v.append(("all",))
        v.append(("trav",))
        for attr in (".", "a", "b"):
            for op in OPS:
                for term in ("a", "1000", "b"):
                    for inv in (False, True):
                        v.append(("search", attr, op, term, inv))
        return v
    raise ValueError(level)


GLOBS = [("glob", ("a", "")), ("glob", ("", "a")), ("glob", ("1", "0")),
         ("glob", ("1", "")), ("glob", ("", "0")),
         # literal parts holding characters a regular expression reads
         ("glob", ("1.", "0")), ("glob", ("1.", "0", "")), ("glob", ("a+", "a")),
         ("glob", ("", "0", "0"))]


def glob_as_search(seg):
    """The search a wildcard key abbreviates (README: prefix*, *suffix,
    pre*suf and multiple wildcards; every other character is literal)."""
    import re
    parts = seg[1]
    if len(parts) == 2 and parts[1] == "":
        return ("search", ".", "^", parts[0], False)
    if len(parts) == 2 and parts[0] == "":
        return ("search", ".", "$", parts[1], False)
    return ("search", ".", "=~",
            "^" + ".*".join(re.escape(p) for p in parts) + "$", False)


def upto(symbols, k):
    for n in range(1, k + 1):
        for combo in itertools.product(symbols, repeat=n):
            yield combo
