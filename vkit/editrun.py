"""
Driving the real editing entry points (set / create / delete) and comparing
the document afterwards with the plain-data model (refedit).
"""
import copy
import io

from yamlpath import Processor
from yamlpath.exceptions import YAMLPathException

from vkit import corpus, qrun, refedit, refquery


_DUMPER = None


def dump(doc):
    """Dump with an editor of its own (a ruamel YAML instance that has dumped
    keeps emitter state that disturbs later loads)."""
    global _DUMPER
    from yamlpath.common import Parsers
    _DUMPER = Parsers.get_yaml_editor()
    buf = io.StringIO()
    _DUMPER.dump(doc, buf)
    return buf.getvalue()


def reload_check(doc):
    """dump -> strict reload -> same data.  Returns None or a description."""
    try:
        text = dump(doc)
    except Exception as ex:               # pylint: disable=broad-except
        return "dump raised %s: %s" % (type(ex).__name__, str(ex)[:80])
    try:
        back = corpus.load(text)
    except corpus.LoadError:
        return "dump does not reload strictly: %r" % text[:120]
    # data equality; anchor *names* are compared in memory by the callers (the
    # loader itself drops the anchor of a scalar spelled exactly "0")
    if corpus.canon(back, anchors=False) != corpus.canon(doc, anchors=False):
        return "reloaded data differ: %r" % text[:120]
    return None


def apply_set(doc, ptext, value, mustexist=True, proc=None):
    """-> ('ok', None) | ('ype', name) | ('crash', where)"""
    proc = proc or Processor(corpus.LOG, doc)
    try:
        proc.set_value(ptext, value, mustexist=mustexist)
        return "ok", None
    except YAMLPathException as ex:
        return "ype", type(ex).__name__
    except Exception as ex:               # pylint: disable=broad-except
        return "crash", "%s@%s" % (type(ex).__name__, qrun.where(ex))


def apply_delete(doc, ptext, proc=None):
    proc = proc or Processor(corpus.LOG, doc)
    try:
        for _ in proc.delete_nodes(ptext):
            pass
        return "ok", None
    except YAMLPathException as ex:
        return "ype", type(ex).__name__
    except Exception as ex:               # pylint: disable=broad-except
        return "crash", "%s@%s" % (type(ex).__name__, qrun.where(ex))


def apply_delete_gathered(doc, ptext):
    """Delete what a query gathered (get_nodes + delete_gathered_nodes)."""
    proc = Processor(corpus.LOG, doc)
    try:
        gathered = list(proc.get_nodes(ptext, mustexist=True))
        proc.delete_gathered_nodes(gathered)
        return "ok", None
    except YAMLPathException as ex:
        return "ype", type(ex).__name__
    except Exception as ex:               # pylint: disable=broad-except
        return "crash", "%s@%s" % (type(ex).__name__, qrun.where(ex))


def model_set(doc, segs, value):
    """-> ('doc', canon, n) | ('unspecified', why) | ('error',) | ('nomatch',)"""
    try:
        ctxs = refedit.matched(doc, segs, expand_slices=True)
    except refquery.Unspecified as ex:
        return ("unspecified", str(ex))
    except refquery.ExpectError:
        return ("error",)
    if not ctxs:
        return ("nomatch",)
    if any(c.pos == () for c in ctxs):
        # the document root cannot be replaced through set_value()
        return ("unspecified", "the path matches the document root")
    return ("doc", refedit.expect_set(doc, ctxs, value), len(ctxs))


def model_delete(doc, segs):
    try:
        ctxs = refedit.matched(doc, segs, expand_slices=True)
    except refquery.Unspecified as ex:
        return ("unspecified", str(ex))
    except refquery.ExpectError:
        return ("error",)
    if not ctxs:
        return ("nomatch",)
    if any(c.pos == () for c in ctxs):
        return ("root",)
    return ("doc", refedit.expect_delete(doc, ctxs), len(ctxs))


def fresh(doc):
    return copy.deepcopy(doc)
