"""
Driving the real query engine and normalising what it answers.
"""
import traceback

from yamlpath import Processor, YAMLPath
from yamlpath.exceptions import (YAMLPathException,
                                 UnmatchedYAMLPathException)
from yamlpath.wrappers import NodeCoords

from vkit.corpus import LOG

_PATHS = {}


def ypath(text):
    """Parsed-once YAMLPath per text (the engine never mutates it)."""
    p = _PATHS.get(text)
    if p is None:
        if len(_PATHS) > 200000:
            _PATHS.clear()
        p = YAMLPath(text)
        _PATHS[text] = p
    return p


def where(ex):
    best = None
    for fs in traceback.extract_tb(ex.__traceback__):
        if "/yamlpath/" in fs.filename.replace("\\", "/"):
            best = fs
    if best is None:
        return "?"
    return "%s:%s:%s" % (best.filename.rsplit("/", 1)[-1], best.name,
                         (best.line or "").strip())


class Outcome:
    """kind: 'nodes' | 'unmatched' | 'ype' | 'crash'"""
    __slots__ = ("kind", "ncs", "detail")

    def __init__(self, kind, ncs=None, detail=""):
        self.kind = kind
        self.ncs = ncs or []
        self.detail = detail

    def brief(self):
        if self.kind == "nodes":
            return "nodes:%d" % len(self.ncs)
        return "%s:%s" % (self.kind, self.detail)


def query(doc, path, mustexist=True, default=None, limit=None):
    """Drain Processor.get_nodes; path may be text or a YAMLPath.  With a
    limit, a generator still yielding after that many results is reported as
    a crash of kind Endless (a query which feeds on what it creates)."""
    proc = Processor(LOG, doc)
    ncs = []
    try:
        if mustexist:
            gen = proc.get_nodes(path, mustexist=True)
        else:
            gen = proc.get_nodes(path, mustexist=False, default_value=default)
        for nc in gen:
            ncs.append(nc)
            if limit is not None and len(ncs) > limit:
                return Outcome("crash", ncs, "Endless@more than %d results"
                               % limit)
        return Outcome("nodes", ncs)
    except UnmatchedYAMLPathException:
        if ncs:
            return Outcome("ype", ncs, "UnmatchedYAMLPathException after "
                           "%d results" % len(ncs))
        return Outcome("unmatched")
    except YAMLPathException as ex:
        return Outcome("ype", ncs, type(ex).__name__)
    except RecursionError as ex:
        return Outcome("crash", ncs, "RecursionError")
    except Exception as ex:        # pylint: disable=broad-except
        return Outcome("crash", ncs, "%s@%s" % (type(ex).__name__, where(ex)))


def exists(doc, path):
    proc = Processor(LOG, doc)
    try:
        return bool(proc.exists(path))
    except YAMLPathException as ex:
        return "ype:" + type(ex).__name__
    except Exception as ex:        # pylint: disable=broad-except
        return "crash:%s@%s" % (type(ex).__name__, where(ex))


def is_virtual(nc):
    """Slices / collectors yield virtual list nodes (plain `list`, never a
    document CommentedSeq)."""
    return type(nc.node) is list or isinstance(nc.node, NodeCoords)


def is_name_result(nc):
    """[name()] yields a virtual node: the key / index itself."""
    seg = getattr(nc, "path_segment", None)
    if not seg:
        return False
    attrs = seg[1]
    kw = getattr(attrs, "keyword", None)
    return kw is not None and str(kw) == "name"


def flat_ids(ncs):
    out = []
    for nc in ncs:
        if is_name_result(nc):
            out.append(("name", str(nc.node)))
        elif isinstance(nc, list):
            out.append(("v",) + tuple(_leaf_ids(nc)))
        elif is_virtual(nc):
            out.append(("v",) + tuple(_leaf_ids(nc.node)))
        else:
            out.append(id(nc.node))
    return out


def _leaf_ids(node):
    if isinstance(node, NodeCoords):
        return _leaf_ids(node.node) if is_virtual(node) else [id(node.node)]
    if type(node) is list:
        out = []
        for ele in node:
            if isinstance(ele, NodeCoords):
                out.extend(_leaf_ids(ele))
            else:
                out.append(id(ele))
        return out
    return [id(node)]
