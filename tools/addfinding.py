#!/usr/bin/env python3
"""tools/addfinding.py <Dnn> <Cxx> <commit> <what...>  - append a 'fixed' entry
to known_findings.jsonl (maintenance tool; never run by a check)."""
import json
import sys
did, prop, commit = sys.argv[1:4]
what = " ".join(sys.argv[4:])
entry = {"status": "fixed", "property": prop, "id": did, "commit": commit,
         "record": "fixed: property=%s %s %s" % (prop, commit, what),
         "what": what}
with open("/verif/known_findings.jsonl", "a", encoding="utf-8") as fh:
    fh.write(json.dumps(entry) + "\n")
print(entry["record"])
