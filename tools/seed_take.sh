#!/bin/bash
# tools/seed_take.sh <Cxx> <suffix> [check ids...]: copy a sub-agent's deliverables from
# /tmp/wt-out/<Cxx> into seeded/S-<Cxx>-<suffix> and confirm them (seed_confirm.sh).
p="$1"; suf="$2"; shift 2
d=/verif/seeded/S-$p-$suf
mkdir -p "$d"
cp /tmp/wt-out/$p/patch.diff /tmp/wt-out/$p/demo.py "$d/" || exit 2
cp /tmp/wt-out/$p/notes.json "$d/notes.json"
ids="$@"; [ -z "$ids" ] && ids="$p"
/verif/tools/seed_confirm.sh "$d" quick $ids
