#!/opt/veriftools/pyvenv/bin/python
"""Validate MANIFEST.json and every evidence file against the given schemas."""
import glob, json, sys
import jsonschema
ok = True
def chk(path, schema):
    global ok
    try:
        jsonschema.validate(json.load(open(path)), json.load(open(schema)))
        print("valid  ", path)
    except Exception as ex:
        ok = False
        print("INVALID", path, str(ex)[:300])
chk("/verif/MANIFEST.json", "/root/.vp/MANIFEST.schema.json")
for f in sorted(glob.glob("/verif/evidence/*.json")):
    chk(f, "/root/.vp/EVIDENCE.schema.json")
sys.exit(0 if ok else 1)
