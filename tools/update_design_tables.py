#!/usr/bin/env python3
"""Refresh the generated tables of DESIGN.md (A.3 findings, C seeded)."""
import subprocess
p = "/verif/DESIGN.md"
s = open(p).read()
seeded = subprocess.check_output(["python3", "/verif/tools/mkseeded_table.py"]).decode()
findings = subprocess.check_output(["python3", "/verif/tools/mkfindings_table.py"]).decode()
# section C: everything after the marker paragraph
marker = "silent on the unchanged tree.)\n\n"
i = s.index(marker) + len(marker)
s = s[:i] + seeded
# section A.3 table: between its intro and "### A.4"
a = s.index("| id | property | status | commit |")
b = s.index("### A.4")
s = s[:a] + findings + "\n" + s[b:]
open(p, "w").write(s)
