#!/bin/bash
# tools/seed_confirm.sh <seeded-dir> <tier> <ID> [<ID>...]
# Confirms a seeded change independently of its author, on scratch copies of
# /repo under /dev/shm:  demo passes on the unchanged tree, fails on the
# changed tree, the pinned suite's summary is unchanged; then runs the named
# checks against the changed copy.  Prints one line per fact.
dir="$1"; tier="$2"; shift 2
work=$(mktemp -d -p /dev/shm seed.XXXXXX)
trap 'rm -rf "$work"' EXIT
rsync -a --exclude .git --exclude __pycache__ /repo/ "$work/orig/"
rsync -a "$work/orig/" "$work/mut/"
( cd "$work/mut" && patch -p1 -s < "$dir/patch.diff" ) || { echo "PATCH FAILED"; exit 2; }
cp "$dir/demo.py" "$work/orig/demo.py"; cp "$dir/demo.py" "$work/mut/demo.py"
( cd "$work/orig" && PYTHONPATH="$work/orig" timeout 300 /venv/bin/python -B demo.py > "$work/o.out" 2>&1 < /dev/null ); echo "demo_on_original_exit=$? ($(tail -1 "$work/o.out" | cut -c1-80))"
( cd "$work/mut" && PYTHONPATH="$work/mut" timeout 300 /venv/bin/python -B demo.py > "$work/m.out" 2>&1 < /dev/null ); echo "demo_on_changed_exit=$? ($(head -1 "$work/m.out" | cut -c1-100))"
rm -f "$work/mut/demo.py"
echo "suite_on_changed: $(/verif/baseline.sh "$work/mut" | tail -1)"
for id in "$@"; do
  out=$(cd /verif && VERIF_REPO="$work/mut" ./check "$id" --tier "$tier" 2>&1); rc=$?
  echo "check $id rc=$rc $(echo "$out" | grep "^$id" | tail -1 | cut -c1-150)"
  echo "$out" | grep -E "^  class|harness" | head -4
done
