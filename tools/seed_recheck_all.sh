#!/bin/bash
# tools/seed_recheck_all.sh [jobs]  - re-confirm every seeded change whose
# patch applies to the current /repo: demo passes unchanged / fails changed,
# suite summary unchanged, and the quick check of its property reports it.
cd /verif
jobs="${1:-4}"
out=/dev/shm/seed-recheck; rm -rf $out; mkdir -p $out
ls seeded | while read id; do
  prop=$(python3 -c "import json;print(json.load(open('seeded/$id/meta.json'))['breaks_property'])")
  echo "$id $prop"
done > $out/list
cat $out/list | xargs -P "$jobs" -L 1 bash -c 'tools/seed_confirm.sh /verif/seeded/$0 quick $1 > /dev/shm/seed-recheck/$0.out 2>&1'
for f in $out/S-*.out; do
  id=$(basename $f .out)
  o=$(grep -c "demo_on_original_exit=0" $f); c=$(grep -c "demo_on_changed_exit=1" $f)
  s=$(grep -c "suite_on_changed: 1 failed, 988 passed, 19 skipped, 1 xfailed, 313 errors" $f)
  r=$(grep -o "rc=[0-9]*" $f | head -1)
  echo "$id orig_ok=$o changed_fails=$c suite_ok=$s check_$r $(grep -c 'PATCH FAILED' $f | sed 's/1/PATCH-FAILED/;s/0//')"
done
