#!/usr/bin/env python3
"""Print the markdown table of recorded findings (for DESIGN.md)."""
import json
print("| id | property | status | commit | what failed before the repair |")
print("|---|---|---|---|---|")
for line in open("/verif/known_findings.jsonl"):
    e = json.loads(line)
    print("| %s | %s | %s | `%s` | %s |" % (e["id"], e["property"], e["status"], e.get("commit", "-"), e["what"].replace("|", "\\|")))
