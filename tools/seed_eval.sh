#!/bin/bash
# Evaluate a seeded change against the checks WITHOUT touching /repo:
#   tools/seed_eval.sh <patch.diff> <tier> <ID> [<ID>...]
# copies /repo's working tree to a scratch directory under /dev/shm (outside
# /repo and /verif), applies the patch there, runs the pinned test-suite and
# the named checks with VERIF_REPO pointing at the copy, removes the copy.
patch="$1"; tier="$2"; shift 2
work=$(mktemp -d -p /dev/shm seed.XXXXXX)
trap 'rm -rf "$work"' EXIT
rsync -a --exclude .git --exclude __pycache__ /repo/ "$work/repo/"
( cd "$work/repo" && patch -p1 -s < "$patch" ) || { echo "PATCH FAILED"; exit 2; }
echo "baseline: $(/verif/baseline.sh "$work/repo" | tail -1)"
for id in "$@"; do
  out=$(cd /verif && VERIF_REPO="$work/repo" ./check "$id" --tier "$tier" 2>&1); rc=$?
  echo "check $id rc=$rc $(echo "$out" | grep "^$id" | tail -1)"
  echo "$out" | grep -E "^  class|harness" | head -6
done
