#!/usr/bin/env python3
"""Print the DESIGN.md table of seeded changes from seeded/*/meta.json."""
import glob, json
print("| seeded id | breaks | change | needs, to manifest | detection history | caught by (quick) |")
print("|---|---|---|---|---|---|")
for f in sorted(glob.glob("/verif/seeded/*/meta.json")):
    m = json.load(open(f))
    print("| %s | %s | %s | %s | %s | %s |" % (m["id"], m["breaks_property"], m["change"].replace("|", "\\|"), m["needs_to_manifest"].replace("|", "\\|"), m["detection"].replace("|", "\\|"), ", ".join(m["caught_by_quick"])))
