#!/usr/bin/env python3
"""Regenerate /verif/MANIFEST.json from the table below (keeps it valid)."""
import json
import os

HERE = os.path.dirname(os.path.dirname(os.path.abspath(__file__)))

# id -> (category, technique, text, note, design_ref)
CHECKS = {
    "C14": (
        "model_checking",
        "exhaustive string enumeration + explicit-state BFS of the parser's "
        "reachable states (sys.monitoring snapshot of the real parser)",
        "Every string up to length L over the 27-symbol syntactic alphabet, "
        "the same strings inside 9 syntactic contexts, and every transition "
        "of the parser's reachable state graph to depth D are parsed by the "
        "real code; only YAMLPathException may escape and every batch runs "
        "under a watchdog. Complete within the printed bounds.",
        "CPython, ruamel.yaml; characters outside the alphabet are assumed "
        "to behave like ordinary letters; state-key soundness is argued in "
        "DESIGN 3/C14 and witnessed in the thorough tier",
        "DESIGN.md section 3, C14"),
}

CHECKS.update({
    "C01": (
        "model_checking",
        "exhaustive product exploration documents x paths against a "
        "reference evaluator stepped over document positions",
        "Every document of the bounded corpus (<= N nodes over collision-"
        "forcing alphabets, plus the collision pack) is queried with every "
        "path of up to k segments over the segment vocabulary; the reference "
        "evaluator enumerates all runs of the path over the document's "
        "positions and the real engine must return the same node objects in "
        "the same order in both notations, through exists(), required and "
        "optional queries. Complete within the printed bounds.",
        "the reference semantics are README / docstrings / test-pinned "
        "behaviour (DESIGN 2.5); cases those leave open are counted as "
        "unspecified and checked only for notation and entry-point agreement",
        "DESIGN.md section 3, C01"),
    "C12": (
        "model_checking",
        "complete enumeration of the finite operator x value x term grid "
        "against an independent typed-comparison reference, plus plain/"
        "inverted partition on every collection of the corpus",
        "The grid 9 operators x 44 loaded haystacks x 40 needles is finite "
        "and enumerated completely against refmatch; inversion is checked as "
        "a partition of the candidates on every collection of every corpus "
        "document for every search segment.",
        "pairs whose spelling is another kind of Python literal, or the text "
        "of null / booleans, are not decided by the documents: only 'does "
        "not raise' is checked there",
        "DESIGN.md section 3, C12"),
    "C15": (
        "model_checking",
        "exhaustive product exploration documents x paths with unrestricted "
        "bounds; oracle = exception class",
        "Every document of the corpus (incl. mixed-container lists) x every "
        "1-segment path and every navigator+segment 2-path over a vocabulary "
        "with out-of-range indexes/slices, invalid regexes, keyword searches "
        "and collectors; the outcome must be results or a YAML Path "
        "exception, for required queries and for optional queries on a copy.",
        "collectors are in scope only when every operand selects scalars "
        "(as the property states); paths come from well-formed ASTs",
        "DESIGN.md section 3, C15"),
})

CHECKS.update({
    "C02": (
        "model_checking",
        "exhaustive product exploration; per-result coordinate invariants "
        "and re-resolution of every reported path on the real engine",
        "Every non-virtual result of every query of the explored product "
        "(documents <= N nodes + collision pack + documents keyed with every "
        "escapable punctuation character x C01 paths plus keyword segments) "
        "must satisfy parent[parentref] is node, an ancestry chain from the "
        "root, an unshared path object, and its reported path must resolve "
        "to exactly that node as printed and in the other notation.",
        "virtual results are excluded as the property states; a hash holding "
        "both 1 and '1' as keys is skipped (the path syntax cannot tell them "
        "apart)",
        "DESIGN.md section 3, C02"),
    "C13": (
        "model_checking",
        "exhaustive enumeration of same-kind sequences and attribute "
        "patterns against a definitional oracle",
        "All sequences up to length L over three same-kind pools with nulls, "
        "all Arrays-of-Hashes / hashes-of-hashes up to R records over the "
        "attribute patterns {v1, v2, absent, null}, x 5 keywords x inversion "
        "x parameter; parent(n) and name() at every position of every corpus "
        "document for every n, and after every 1-segment path; compared with "
        "the definitional oracle by node identity (order-free for inverted "
        "max/min/unique, whose order the property does not state).",
        "mixed-kind members, containers as members, empty or all-null lists "
        "are left open by the documents and counted as unspecified",
        "DESIGN.md section 3, C13"),
})

CHECKS.update({
    "C03": (
        "model_checking",
        "exhaustive single-step exploration + explicit-state BFS over edit "
        "histories, real Processor stepped in lock-step with a plain-data "
        "model",
        "Single steps: every document of a repeat-forcing corpus and every "
        "anchor/alias decoration of the base documents x paths x new values "
        "of each scalar type, the edited document compared with the model "
        "(matched positions and their alias class change, nothing else), "
        "alias sharing preserved, dump strictly reloads. Histories: BFS to "
        "depth d over {set, create, delete} from seed documents, states "
        "deduplicated by canonical form + alias classes, model comparison "
        "and dump/reload on every transition.",
        "matched positions come from the C01 reference evaluator; alias "
        "used as a mapping *key* does not survive a ruamel dump even "
        "unedited and is outside the corpus; replacing the document root is "
        "not possible through set_value and is skipped",
        "DESIGN.md section 3, C03"),
    "C04": (
        "model_checking",
        "exhaustive single-step exploration against a plain-data delete "
        "model (+ delete transitions inside the C03 history BFS)",
        "Every document (empty containers, repeated scalars, nested lists) x "
        "every path of 1..2 segments incl. negative indexes, wildcards, "
        "traversals, searches and collector sums that match a node twice or "
        "out of order; the model removes the set of matched positions; root "
        "deletion must be refused and change nothing.",
        "matched positions come from the C01 reference evaluator",
        "DESIGN.md section 3, C04"),
    "C09": (
        "model_checking",
        "exhaustive exploration; snapshot (canonical form + identity map) "
        "equality for queries, creation model with exact frame for missing "
        "tails",
        "Purity: every document x every C01 path of 1..2 segments and 20 "
        "collector expressions - canonical form and position->object map "
        "equal before/after required query, exists() and optional query on "
        "an existing path. Creation: every container position of every "
        "document x every missing tail of length 1..3 (fresh key, index len, "
        "len+2): result equals the model (exact tail, padding only up to the "
        "index, every pre-existing node the same object), path resolves to "
        "the value, dump reloads.",
        "padding elements may hold anything; tails below null/scalars are "
        "refused by the library and out of the clause",
        "DESIGN.md section 3, C09"),
})

CHECKS.update({
    "C05": (
        "model_checking",
        "exhaustive product exploration document pairs x policy vectors "
        "against a plain-data reference merge and an expected-error table",
        "All ordered pairs of the merge corpus (maps, lists, Arrays-of-Hashes "
        "with and without identity keys, sets, scalars, empty containers, "
        "every pair of kinds clashing under one key) x policy vectors (quick: "
        "an all-pairs covering subset of the 180; thorough: all 180 x 5 "
        "rule/key overrides); the real Merger's result must equal the "
        "reference merge as data, keep the relative key orders, and raise "
        "MergeException exactly where the merge is structurally impossible.",
        "cases the option documentation leaves open (scalar over a container "
        "under a key, null values, duplicates within the right-hand array "
        "under unique, set/array/scalar conversions at the root under "
        "left/right) are counted as unspecified: only 'no crash' there",
        "DESIGN.md section 3, C05"),
})

CHECKS.update({
    "C10": (
        "model_checking",
        "exhaustive enumeration of anchor-decorated document pairs x anchor "
        "policies against an alias-class model + dump/strict-reload",
        "All pairs of documents defining and aliasing scalar anchors from "
        "{A, B} (aliases under map keys and inside lists; equal-name/equal-"
        "value, equal-name/different-value, disjoint; a pre-existing A_1) x "
        "{stop, left, right, rename} x 4 merge-policy vectors: data equal to "
        "the reference merge after the policy's substitution, one value per "
        "anchor name, stop refuses and leaves L unchanged, the dump strictly "
        "reloads to the same data.",
        "scalar anchors only; merged data judged by the C05 reference merge",
        "DESIGN.md section 3, C10"),
    "C11": (
        "model_checking",
        "exhaustive product exploration left documents x target paths x "
        "right documents x policies; frame + per-target reference merge",
        "Every left document x every target path (each position; multi-match "
        "wildcard/search/traversal paths; missing creatable; not creatable) x "
        "6 right documents of every root type x 6 policy vectors: the result "
        "equals the left document with exactly the matched subtrees replaced "
        "by the reference merge (or the created path), and impossible targets "
        "are refused.",
        "targets come from the C01 reference evaluator, per-target results "
        "from the C05 reference merge; null targets and creation through "
        "list pass-through are left open",
        "DESIGN.md section 3, C11"),
    "C18": (
        "model_checking",
        "exhaustive enumeration of stream pairs x modes; each pairwise "
        "transition judged by the reference merge, under a watchdog",
        "All pairs of document streams of lengths 1..n over a 6-document "
        "pool (incl. an empty document, a list document and a type clash) x "
        "{condense_all, merge_across, matrix_merge} x 2 policy vectors, the "
        "right stream read from a real multi-document file: count, order and "
        "content of the outputs equal the mode's fold of the reference merge "
        "and the return state is non-zero exactly when a step is impossible.",
        "pairwise steps judged by the C05 reference merge",
        "DESIGN.md section 3, C18"),
})

CHECKS.update({
    "C06": (
        "model_checking",
        "exhaustive enumeration of document pairs (identity, all single-edit "
        "neighbours, unrelated) x 10 mode combinations; invariant oracles on "
        "the real Differ's report",
        "For every L of the corpus and every R in {L, every single-edit "
        "neighbour of L, a sub-corpus} x {position, value} x {position, dpos, "
        "value, key, deep}: a non-SAME entry exists iff the documents differ "
        "as data under that mode; under positional comparison every entry's "
        "lhs/rhs is what the documents hold at its path (plain navigation), "
        "SAME values are equal, CHANGE values differ, every scalar/null leaf "
        "is covered, and flat lists are accounted for exactly once.",
        "key/deep only where the compared lists hold only hashes; a list "
        "mixing hashes with other members is skipped when the array and AoH "
        "modes disagree (which governs is undefined); {} vs {} may stay "
        "silent",
        "DESIGN.md section 3, C06"),
})

CHECKS.update({
    "C08": (
        "model_checking",
        "exhaustive enumeration of segment ASTs rendered by an independent "
        "writer, parsed by the real parser, compared field by field; all "
        "pairs for ==",
        "Every AST of 1..k segments over the complete segment grammar (keys / "
        "terms / parameters over letters, digits and every escapable special "
        "character, all 9 operators, inversion, 7 keywords with 0-2 "
        "parameters, slices, anchors, collectors with + - &) is written in "
        "dot and slash notation with backslash escapes and with quote "
        "demarcation, parsed, and must give back exactly the AST; the "
        "canonical string re-parses to it in either notation and is a fixed "
        "point; == agrees with AST equality on all pairs; append then pop "
        "restores the path.",
        "quote demarcation is used only where README documents it (text "
        "without brackets, parentheses, quotes or backslashes); text with * "
        "or a leading & / operator character is outside the escapable set",
        "DESIGN.md section 3, C08"),
})

CHECKS.update({
    "C07": (
        "model_checking",
        "exhaustive product exploration documents x expressions x option "
        "vectors against a reference search; every reported path re-resolved "
        "on the real engine",
        "Every document (incl. all anchor/alias decorations of the base "
        "documents, punctuation keys) x 9 operators x inversion x terms x "
        "{values, keys+values, keys-only} x 4 alias-inclusion modes x expand "
        "x 2 notations: the multiset of objects the reported paths resolve to "
        "(each path queried in the notation it was printed in, must resolve "
        "to exactly one object) equals the reference's matched sites - sound, "
        "complete, no duplicates; expansion yields exactly the leaves.",
        "value matching judged by refmatch; --refnames, EYAML decryption, "
        "sets and YAML merge keys are not explored",
        "DESIGN.md section 3, C07"),
})

CHECKS.update({
    "C16": (
        "model_checking",
        "exhaustive enumeration of (tool, document, arguments, delivery) "
        "through the real main() entry points under a closed-world driver; "
        "differential oracle against the library answer",
        "For each of the six tools an enumerated product of documents, "
        "arguments and deliveries (file, '-', implied stdin; YAML flow/block "
        "and JSON; both notations) runs through the real console entry "
        "point in-process: yaml-get lines and exit status, yaml-set edited "
        "file / stdout, yaml-merge output in YAML and JSON, yaml-diff exit "
        "status and printed entries, yaml-validate exit status, yaml-paths "
        "lines must be the function of the library answer the property "
        "states, and file and stdin delivery must agree. 54 cases are "
        "re-run through a real subprocess (driver conformance).",
        "the library answers are held against their models by C01, C03-C07",
        "DESIGN.md section 3, C16"),
    "C17": (
        "fault_enumeration",
        "exhaustive single-fault injection at every I/O call of the save "
        "sequence (fail / torn / interrupt) + enumerated pre-write failure "
        "causes; byte-level file invariants",
        "Pre-write: every failure cause of yaml-set and yaml-merge x "
        "documents x backup on/off x stale .bak on/off must leave a non-zero "
        "status, identical target bytes and directory listing. Save "
        "sequence: for three --backup scenarios x documents x stale .bak, a "
        "fault of each of 3 kinds at the k-th interposed I/O call for EVERY "
        "k (hundreds of calls per run): target or target.bak always holds "
        "the complete original, and a completed run's .bak is the pre-image.",
        "faults are exceptions / torn writes / interrupts at the process's "
        "I/O calls; no fsync is issued by the tools, so power loss with "
        "unsynced page cache is outside the claim",
        "DESIGN.md section 3, C17"),
    "C19": (
        "model_checking",
        "exhaustive enumeration of secret/plaintext placements through the "
        "real eyaml-rotate-keys main() with a keyed reversible stand-in "
        "cipher",
        "Every assignment of slot kinds (secret one-line / folded / with "
        "white-space, plaintext, look-alikes, int, null) to the slots of 5 "
        "skeletons, plus anchored secrets aliased from hash values and list "
        "elements, x backup on/off: every secret decrypts under the new keys "
        "to its old plaintext and no longer under the old ones, one decrypt "
        "+ one encrypt per anchor class, aliases stay shared, the frame "
        "(keys, order, anchors, non-secrets) is unchanged, a file without "
        "secrets is untouched, --backup leaves the pre-image, wrong old keys "
        "fail.",
        "hiera-eyaml is absent: a stand-in implements the same command-line "
        "protocol (also exercised as a real executable)",
        "DESIGN.md section 3, C19"),
})

NOT_YET = {
}


def main():
    with open(os.path.join(HERE, "properties.jsonl"), encoding="utf-8") as fh:
        props = [json.loads(line)["id"] for line in fh if line.strip()]
    checks = []
    for pid in props:
        if pid not in CHECKS:
            continue
        cat, tech, text, note, ref = CHECKS[pid]
        checks.append({
            "property_id": pid,
            "quick_cmd": "./check %s --tier quick" % pid,
            "thorough_cmd": "./check %s --tier thorough" % pid,
            "evidence_file": "/verif/evidence/%s.json" % pid,
            "replay_cmd_template": "./check %s --replay {path}" % pid,
            "engine": "vkit",
            "level_claimed": {"category": cat, "text": text,
                              "design_ref": ref},
            "level_note": note,
            "technique": tech,
        })
    na = []
    for pid in props:
        if pid not in CHECKS:
            na.append({"property_id": pid, "reason": NOT_YET.get(
                pid, "no check registered yet: the model-checking harness "
                "for this property is still being built (DESIGN.md section 5 "
                "build order); not a claim that the technique cannot apply")})
    man = {
        "version": 1,
        "setup_cmd": "/venv/bin/python -B -c \"import ruamel.yaml, sys; "
                     "sys.path.insert(0, '/verif'); import vkit.core\"",
        "hooks": {
            "guard": "YAMLPATH_VERIF",
            "enable": "no source hooks exist: checks import /repo's working "
                      "tree directly (PYTHONPATH=/repo, python -B) and observe "
                      "it from outside (sys.monitoring, module-global "
                      "interposition)",
            "baseline_off_cmd": "cd /repo && env -u YAMLPATH_VERIF "
                                "/venv/bin/python -m pytest -ra -q -p "
                                "no:cacheprovider --timeout=900 "
                                "--continue-on-collection-errors",
            "source_commits": [],
            "add_only": True,
        },
        "engines": [{
            "name": "vkit",
            "path": "/verif/vkit",
            "serves_properties": [c["property_id"] for c in checks],
            "kind_free_text": "hand-written explicit-state / small-scope "
                              "exhaustive explorers in Python driving the "
                              "real yamlpath code, each stepped in lock-step "
                              "with a plain-Python reference model",
        }],
        "checks": checks,
        "not_applicable": na,
        "notes": "See DESIGN.md. Fix commits in /repo are listed in "
                 "known_findings.jsonl (status fixed).",
    }
    with open(os.path.join(HERE, "MANIFEST.json"), "w",
              encoding="utf-8") as fh:
        json.dump(man, fh, indent=1)
        fh.write("\n")


if __name__ == "__main__":
    main()
