#!/bin/bash
# Run every registered check's quick command; print one line each.
cd /verif
tier="${1:-quick}"
for id in $(python3 -c "import json;print(' '.join(c['property_id'] for c in json.load(open('MANIFEST.json'))['checks']))"); do
  out=$(./check $id --tier $tier 2>&1); rc=$?
  echo "rc=$rc $(echo "$out" | grep "^$id" | tail -1)"
  if [ $rc -ne 0 ]; then echo "$out" | grep -E "VIOLATION|harness|class" | head -5; fi
done
