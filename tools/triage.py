#!/usr/bin/env python3
"""Print one replay per violation class family (for triage)."""
import glob, json, sys, re
pat = sys.argv[1] if len(sys.argv) > 1 else "."
seen = {}
for f in sorted(glob.glob("/verif/replays/%s*.json" % (sys.argv[2] if len(sys.argv) > 2 else ""))):
    d = json.load(open(f))
    if not re.search(pat, d["cls"]): continue
    print("==", d["cls"])
    c = d["case"]
    print("   case:", {k: v for k, v in c.items() if k != "segs"})
    print("   expected:", d["expected"])
    print("   observed:", d["observed"])
