#!/usr/bin/env python3
"""tools/mkfigures.py - rewrite the quick-tier figure table of DESIGN.md A.1
from the evidence files (which must come from quick runs on /repo)."""
import json
import os
import re

V = "/verif"
rows = ["| id | tier | evaluations | states | transitions | distinct | wall |",
        "|---|---|---|---|---|---|---|"]
for n in range(1, 20):
    pid = "C%02d" % n
    ev = json.load(open(os.path.join(V, "evidence", pid + ".json")))
    cov = ev["coverage"]
    rows.append("| %s | %s | %s | %s | %s | %s | %d s |" % (
        pid, ev.get("tier"), "{:,}".format(cov["evaluations"]).replace(",", " "),
        "{:,}".format(cov["states"]).replace(",", " "),
        "{:,}".format(cov["transitions"]).replace(",", " "),
        "{:,}".format(cov["distinct_nontrivial"]).replace(",", " "),
        round(ev.get("wall_s", 0))))
text = open(os.path.join(V, "DESIGN.md"), encoding="utf-8").read()
pat = re.compile(r"(Measured quick-tier figures[^\n]*\n\n)(\|.*?\n)(\n### A\.2)",
                 re.S)
assert pat.search(text)
text = pat.sub(lambda m: m.group(1) + "\n".join(rows) + "\n" + m.group(3),
               text)
open(os.path.join(V, "DESIGN.md"), "w", encoding="utf-8").write(text)
print("\n".join(rows))
